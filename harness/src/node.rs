//! Node-level scenario drivers: real `MainlineDht` nodes on the simulated network (DESIGN §5).

use std::collections::HashMap;
use crate::benc;
use crate::sim::*;
use crate::util::*;
use rand::{rngs::StdRng, Rng, SeedableRng};
use serde_json::json;
use std::net::SocketAddr;
use std::sync::{Arc, Mutex};

pub fn run(o: &Opts) -> Res<()> {
    let scen = o.req("scenario")?.to_owned();
    let out = o.req("out")?.to_owned();
    let seed = o.num("seed", 1);
    let lines = match scen.as_str() {
        "smoke" => run_scenario(&out, seed, |net| smoke(net, seed))?,
        "server" => {
            let v6 = o.get("fam") == Some("6");
            let ro = o.get("ro") == Some("1");
            let nq = o.num("nq", 400);
            let fat = o.num("fat", 0);
            let renew = o.num("renew", 0);
            run_scenario(&out, seed, move |net| server(net, seed, v6, ro, nq, fat, renew))?
        }
        "lookup" => {
            let kind = o.get("kind").unwrap_or("coop").to_owned();
            let nn = o.num("n", 20) as usize;
            let age = o.num("age", 0);
            run_scenario(&out, seed, move |net| lookup(net, seed, kind, nn, age))?
        }
        "maint" => {
            let peers = o.num("peers", 3) as usize;
            let hours = o.num("minutes", 60);
            let mask = o.num("mask", seed);          // bit i set: peer i (i > 0) goes silent at some time
            let given_all = o.num("given", seed % 2) == 1;
            let sendfail = o.num("sendfail", 0) == 1;
            let strangers = o.num("strangers", 0) == 1;
            run_scenario(&out, seed, move |net| maintenance(net, seed, peers, hours, mask, given_all, sendfail, strangers))?
        }
        "boot" => run_scenario(&out, seed, move |net| bootstrap_scn(net, seed))?,
        "early" => run_scenario(&out, seed, move |net| early_search(net, seed))?,
        "e2e" => {
            let nn = o.num("n", 3) as usize;
            let long = o.num("long", 0) == 1;
            let full = o.num("full", 0) == 1;
            run_scenario(&out, seed, move |net| e2e(net, seed, nn, long, full))?
        }
        "stale" => run_scenario(&out, seed, move |net| stale(net, seed))?,
        "manysearch" => { let k = o.num("n", 2100); run_scenario(&out, seed, move |net| many_searches(net, seed, k))? }
        "flood" => {
            let corpus = o.req("corpus")?.to_owned();
            run_scenario(&out, seed, move |net| flood(net, seed, corpus))?
        }
        other => return Err(format!("unknown scenario {other}").into()),
    };
    eprintln!("vh node {scen}: {lines} trace lines");
    Ok(())
}

/// One serving node bootstrapping off an oracle network of 20 virtual nodes, then an announcing search.
async fn smoke(net: Net, seed: u64) {
    let mut rng = StdRng::seed_from_u64(seed);
    let nodes: Vec<VNode> = (0..20)
        .map(|i| VNode { id: rand_id(&mut rng), addr: v4(10, 1, 0, i as u8 + 1, 6881), mode: Mode::Answer, peers: Default::default(),
                         secret: i as u8, names_extra: vec![], truthful: true })
        .collect();
    let oracle = Arc::new(Mutex::new(OracleNet::new(nodes)));
    let addrs = oracle.lock().unwrap().addrs();
    net.log(json!({"ev":"Universe","nodes":oracle.lock().unwrap().universe_json()}));
    net.add_scripted(&addrs, Box::new(oracle.clone()));
    let me: SocketAddr = v4(10, 0, 0, 1, 7000);
    let dht = start_node(&net, &NodeCfg { addr: me, id: None, read_only: false, announce_port: None, nodes: vec![addrs[0], addrs[1]], routers: vec![] });
    let w = wait_bootstrapped(&net, &dht, me, 1);
    if tokio::time::timeout(std::time::Duration::from_secs(1200), w).await.is_err() {
        net.log(json!({"ev":"End"}));
        return;
    }
    let ih = rand_id(&mut rng);
    let s = search(&net, &dht, me, 1, ih, true);
    let got = tokio::time::timeout(std::time::Duration::from_secs(900), s).await.ok().and_then(|r| r.ok()).unwrap_or_default();
    net.inject(v4(10, 9, 9, 9, 1), me, benc::q_ping(b"xy", &rand_id(&mut rng)), 5);
    sleep_ms(2000).await;
    api_state(&net, &dht, me).await;
    api_contacts(&net, &dht, me).await;
    eprintln!("smoke: search yielded {} peers, announces recorded by oracle: {}", got.len(), oracle.lock().unwrap().announces.len());
}


fn oracle_universe(rng: &mut StdRng, n: usize, v6net: bool, cluster: Option<Id>) -> Vec<VNode> {
    (0..n)
        .map(|i| {
            let mut id = rand_id(rng);
            if let Some(c) = cluster {
                // share a random number of leading bytes with the cluster centre
                let k = rng.gen_range(0..6usize);
                id[..k].copy_from_slice(&c[..k]);
            }
            let addr = if v6net { v6(i as u16 + 1, 6881) } else { v4(10, 1, (i >> 8) as u8, (i & 255) as u8, 6881) };
            VNode { id, addr, mode: Mode::Answer, peers: Default::default(), secret: (i % 251) as u8, names_extra: vec![], truthful: true }
        })
        .collect()
}

fn rand_tid(rng: &mut StdRng) -> Vec<u8> {
    let len = match rng.gen_range(0..10) { 0 => 0, 1 => 1, 2 => 2, 3 => 8, 4 => 32, 5 => 4, _ => rng.gen_range(0..=32) };
    (0..len).map(|_| match rng.gen_range(0..6) { 0 => 0u8, 1 => 0xff, 2 => b':', 3 => b'e', _ => rng.gen() }).collect()
}

/// Server fuzz (C05 C06 C07 C09 C12 C17): one node with a populated table is sent queries of every kind and argument
/// combination from several source addresses, interleaved with non-query traffic and passage of time.
async fn server(net: Net, seed: u64, v6net: bool, read_only: bool, nq: u64, fat: u64, renew: u64) {
    let mut rng = StdRng::seed_from_u64(seed);
    let my_id = rand_id(&mut rng);
    let mut nodes = oracle_universe(&mut rng, if v6net { 60 } else { 100 }, v6net, Some(my_id));
    if !v6net {
        // plus uniformly placed ids so that the first buckets fill up (a table of 60+ contacts)
        let more = oracle_universe(&mut rng, 400, false, None);
        for (i, mut m) in more.into_iter().enumerate() {
            m.addr = v4(10, 2, (i >> 8) as u8, (i & 255) as u8, 6881);
            nodes.push(m);
        }
    }
    nodes[1].mode = Mode::EchoQuery; // a bootstrap contact that queries us with the transaction id we just used towards it
    // the node that will be configured as a router has the id nearest to ours: almost every answer about our neighbourhood names it
    nodes[4].id = my_id;
    nodes[4].id[19] ^= 1;
    let oracle = Arc::new(Mutex::new(OracleNet::new(nodes)));
    let addrs = oracle.lock().unwrap().addrs();
    net.with(|n| n.faults.max_latency_ms = 300);
    net.log(json!({"ev":"Universe","nodes":oracle.lock().unwrap().universe_json()}));
    net.add_scripted(&addrs, Box::new(oracle.clone()));
    let me: SocketAddr = if v6net { v6(9000, 7000) } else { v4(10, 0, 0, 1, 7000) };
    // one of the universe's nodes (close to the own id, hence named in many answers) is configured as a router
    let dht = start_node(&net, &NodeCfg { addr: me, id: Some(my_id), read_only, announce_port: None,
                                          nodes: addrs[..4].to_vec(), routers: vec![addrs[4].to_string()] });
    if tokio::time::timeout(std::time::Duration::from_secs(1200), wait_bootstrapped(&net, &dht, me, 1)).await.is_err() {
        net.log(json!({"ev":"End"}));
        return;
    }
    // requesters: several IPs, two ports on the first
    let reqs: Vec<SocketAddr> = if v6net {
        vec![v6(5001, 4000), v6(5001, 4001), v6(5002, 4000), v6(5003, 4000)]
    } else {
        vec![v4(10, 7, 0, 1, 4000), v4(10, 7, 0, 1, 4001), v4(10, 7, 0, 2, 4000), v4(10, 7, 0, 3, 4000)]
    };
    // the prober sees replies: register it as a scripted party that just swallows datagrams (replies are in the trace)
    struct Sink;
    impl Scripted for Sink {
        fn on_datagram(&mut self, _: i64, _: &Dgram, _: &mut StdRng) -> Vec<(u64, SocketAddr, SocketAddr, Vec<u8>)> { vec![] }
    }
    let hashes: Vec<Id> = (0..3).map(|_| rand_id(&mut rng)).collect();
    let table_ids: Vec<Id> = oracle.lock().unwrap().nodes.iter().map(|n| n.id).collect();
    let mut tokens: Vec<(SocketAddr, Vec<u8>, i64)> = vec![]; // learnt from replies via the trace? we compute them from the reply stream
    // To use real tokens the prober must read replies: a scripted party records the last token per requester.
    let seen = Arc::new(Mutex::new(Vec::<(SocketAddr, Vec<u8>)>::new()));
    struct TokSink(Arc<Mutex<Vec<(SocketAddr, Vec<u8>)>>>);
    impl Scripted for TokSink {
        fn on_datagram(&mut self, _: i64, d: &Dgram, _: &mut StdRng) -> Vec<(u64, SocketAddr, SocketAddr, Vec<u8>)> {
            if let Some((m, _)) = benc::parse(&d.bytes) {
                if let Some(tok) = m.get("r").and_then(|r| r.get("token")).and_then(|t| t.bytes()) {
                    self.0.lock().unwrap().push((d.dst, tok.to_vec()));
                }
            }
            vec![]
        }
    }
    let _ = Sink;
    let mut all_req = reqs.clone();
    let fat_srcs: Vec<SocketAddr> = (0..fat).map(|i| if v6net { v6(6000 + i as u16, 5000) } else { v4(10, 8, (i >> 8) as u8, (i & 255) as u8, 5000) }).collect();
    all_req.extend(fat_srcs.iter().copied());
    net.add_scripted(&all_req, Box::new(TokSink(seen.clone())));
    let flip = |id: &Id, bit: usize| { let mut f = *id; f[bit / 8] ^= 1 << (7 - bit % 8); f };
    for _ in 0..nq {
        let src = reqs[rng.gen_range(0..reqs.len())];
        let t = rand_tid(&mut rng);
        // usually a stranger's id; sometimes the id of a contact in the node's table, sent from a different address
        let qid = if rng.gen_range(0..6) == 0 { table_ids[rng.gen_range(0..table_ids.len())] } else { rand_id(&mut rng) };
        let want = match rng.gen_range(0..5) { 0 => Some("n4"), 1 => Some("n6"), 2 => Some("both"), _ => None };
        let target = match rng.gen_range(0..5) {
            0 => my_id,
            1 => flip(&my_id, rng.gen_range(0..160)),
            2 => table_ids[rng.gen_range(0..table_ids.len())],
            _ => rand_id(&mut rng),
        };
        let ih = hashes[rng.gen_range(0..hashes.len())];
        let bytes = match rng.gen_range(0..20) {
            0 | 1 => benc::q_ping(&t, &qid),
            2 | 3 | 4 => benc::q_find_node(&t, &qid, &target, want),
            5 | 6 | 7 | 8 => benc::q_get_peers(&t, &qid, &ih, want),
            9 | 10 | 11 | 12 | 13 => {
                // announce with a token chosen from: latest for this ip, an older one, another ip's, forged, wrong length
                let known = seen.lock().unwrap().clone();
                let mine: Vec<&(SocketAddr, Vec<u8>)> = known.iter().filter(|(a, _)| a.ip() == src.ip()).collect();
                let other: Vec<&(SocketAddr, Vec<u8>)> = known.iter().filter(|(a, _)| a.ip() != src.ip()).collect();
                let tok: Vec<u8> = match rng.gen_range(0..13) {
                    // a genuine token of the wrong length: one byte appended, the last byte cut off, written twice
                    10 if !mine.is_empty() => { let mut t = mine[mine.len() - 1].1.clone(); t.push(rng.gen()); t }
                    11 if !mine.is_empty() => { let mut t = mine[mine.len() - 1].1.clone(); t.pop(); t }
                    12 if !mine.is_empty() => { let t = mine[mine.len() - 1].1.clone(); [t.clone(), t].concat() }
                    0..=4 if !mine.is_empty() => mine[mine.len() - 1].1.clone(),
                    5 if !mine.is_empty() => mine[rng.gen_range(0..mine.len())].1.clone(),
                    6 if !other.is_empty() => other[rng.gen_range(0..other.len())].1.clone(),
                    7 => (0..20).map(|_| rng.gen()).collect(),
                    8 => (0..rng.gen_range(0..40usize)).map(|_| rng.gen()).collect(),
                    9 if rng.gen_bool(0.6) => { let b = *[0xffu8, 0x80, 0xfe, 0xc0].get(rng.gen_range(0..4)).unwrap(); vec![b; rng.gen_range(300..1000usize)] }
                    _ => vec![],
                };
                match rng.gen_range(0..4) {
                    0 => benc::q_announce(&t, &qid, &ih, &tok, Some(rng.gen_range(1..65535)), None),
                    1 => benc::q_announce(&t, &qid, &ih, &tok, None, None),
                    2 => benc::q_announce(&t, &qid, &ih, &tok, None, Some(rng.gen_range(1..65535))),
                    _ => benc::q_announce(&t, &qid, &ih, &tok, Some(6881), None),
                }
            }
            14 => benc::r_generic(&(0..8).map(|_| rng.gen()).collect::<Vec<u8>>(), &qid, Some(b"tok"), &[v4(1, 2, 3, 4, 5)],
                                  &[(rand_id(&mut rng), v4(10, 66, 0, 1, 1)), (my_id, v4(10, 66, 0, 2, 1))], &[]),
            15 => benc::r_generic(&t, &qid, None, &[], &[(rand_id(&mut rng), v4(10, 66, 0, 3, 1))], &[]),
            16 => benc::e_error(&t, 201, "fuzz error"),
            17 => (0..rng.gen_range(0..60usize)).map(|_| rng.gen()).collect(),
            18 => {
                // a query of an unknown method
                benc::dict(vec![("t", benc::B::b(&t)), ("y", benc::B::s("q")), ("q", benc::B::s("vote")),
                                ("a", benc::dict(vec![("id", benc::B::b(&qid))]))]).to_vec()
            }
            _ => {
                // a known query with extra unknown keys at every level (must be answered like the plain one)
                let mut top = vec![("t", benc::B::b(&t)), ("y", benc::B::s("q")), ("q", benc::B::s("ping")), ("v", benc::B::s("XX01")),
                                   ("ro", benc::B::Int(1))];
                top.push(("a", benc::dict(vec![("id", benc::B::b(&qid)), ("scrape", benc::B::Int(1)), ("name", benc::B::s("x"))])));
                benc::dict(top).to_vec()
            }
        };
        net.inject(src, me, bytes, rng.gen_range(0..30));
        match rng.gen_range(0..40) {
            0 => sleep_ms(rng.gen_range(590_000..610_000)).await,
            1 => sleep_ms(rng.gen_range(60_000..300_000)).await,
            2 | 3 => sleep_ms(rng.gen_range(1000..20_000)).await,
            _ => sleep_ms(rng.gen_range(0..200)).await,
        }
    }
    // C17: many peers on one info-hash, then get_peers from both kinds of requester
    if fat > 0 {
        let ih = hashes[0];
        for (i, src) in fat_srcs.iter().enumerate() {
            net.inject(*src, me, benc::q_get_peers(&[1, (i >> 8) as u8, i as u8], &rand_id(&mut rng), &ih, None), 0);
        }
        sleep_ms(500).await;
        let known = seen.lock().unwrap().clone();
        for (i, src) in fat_srcs.iter().enumerate() {
            if let Some((_, tok)) = known.iter().rev().find(|(a, _)| a == src) {
                net.inject(*src, me, benc::q_announce(&[2, (i >> 8) as u8, i as u8], &rand_id(&mut rng), &ih, tok, None, None), 0);
            }
            if i % 25 == 24 || i + 1 == fat_srcs.len() {
                sleep_ms(50).await;
                for w in [None, Some("both")] {
                    net.inject(reqs[0], me, benc::q_get_peers(&(0..rng.gen_range(0..=32usize)).map(|_| rng.gen()).collect::<Vec<u8>>(), &rand_id(&mut rng), &ih, w), 0);
                }
                sleep_ms(50).await;
            }
        }
    }
    // capacity and renewals: one requester re-announces the same pair `renew` times (the store holds ONE more pair, however often
    // it is renewed), then new pairs are announced by it and by others: each must be acknowledged while fewer than 500 pairs are
    // held, and refused with 202 from the 501st on; a renewal of a stored pair still succeeds then
    if renew > 0 {
        let r = reqs[2];
        let ih_r = rand_id(&mut rng);
        let latest = |seen: &Arc<Mutex<Vec<(SocketAddr, Vec<u8>)>>>, a: SocketAddr| seen.lock().unwrap().iter().rev().find(|(x, _)| *x == a).map(|(_, t)| t.clone());
        net.inject(r, me, benc::q_get_peers(b"rn0", &rand_id(&mut rng), &ih_r, None), 0);
        sleep_ms(400).await;
        if let Some(tok) = latest(&seen, r) {
            for i in 0..renew {
                net.inject(r, me, benc::q_announce(&[7, (i >> 8) as u8, i as u8], &rand_id(&mut rng), &ih_r, &tok, None, None), 0);
                if i % 64 == 63 { sleep_ms(20).await; }
            }
            sleep_ms(400).await;
            // new pairs after the renewals
            for k in 0..3u8 {
                let ih_n = rand_id(&mut rng);
                net.inject(r, me, benc::q_announce(&[8, k], &rand_id(&mut rng), &ih_n, &tok, Some(4000 + k as u16), None), 0);
            }
            sleep_ms(400).await;
            // now really fill the store: distinct pairs (one requester, many info-hashes) until well past 500
            for i in 0..560u32 {
                let ih_n = rand_id(&mut rng);
                net.inject(r, me, benc::q_announce(&[9, (i >> 8) as u8, i as u8], &rand_id(&mut rng), &ih_n, &tok, None, None), 0);
                if i % 64 == 63 { sleep_ms(20).await; }
            }
            sleep_ms(400).await;
            // a renewal in the full store, and a get_peers for the renewed pair
            net.inject(r, me, benc::q_announce(b"rn1", &rand_id(&mut rng), &ih_r, &tok, None, None), 0);
            net.inject(reqs[0], me, benc::q_get_peers(b"rn2", &rand_id(&mut rng), &ih_r, None), 0);
        }
    }
    sleep_ms(3000).await;
    api_state(&net, &dht, me).await;
    api_contacts(&net, &dht, me).await;
    api_local_addr(&net, &dht, me).await;
    let _ = &mut tokens;
    net.log(json!({"ev":"End"}));
}


/// C17 / C07 over a day: a swarm of 100 peers announces (one or two info-hashes), renews in another order, is replaced a day later
/// by 100 other peers; the get_peers replies of the second day must carry the second swarm only (and fit a datagram).
/// Recorded in projection mode (only the get_peers / announce_peer steps).
async fn stale(net: Net, seed: u64) {
    let mut rng = StdRng::seed_from_u64(seed);
    let my_id = rand_id(&mut rng);
    let nodes = oracle_universe(&mut rng, 3, false, None);
    let oracle = Arc::new(Mutex::new(OracleNet::new(nodes)));
    let addrs = oracle.lock().unwrap().addrs();
    net.with(|nn| { nn.rec.projection = true; nn.faults.max_latency_ms = 20; });
    net.log(json!({"ev":"Scenario","coop":false,"kind":"stale","projection":true}));
    net.add_scripted(&addrs, Box::new(oracle.clone()));
    let me: SocketAddr = v4(10, 0, 0, 1, 7000);
    let dht = start_node(&net, &NodeCfg { addr: me, id: Some(my_id), read_only: false, announce_port: None, nodes: addrs.clone(), routers: vec![] });
    if tokio::time::timeout(std::time::Duration::from_secs(1200), wait_bootstrapped(&net, &dht, me, 1)).await.is_err() {
        net.log(json!({"ev":"End"}));
        return;
    }
    let seen = Arc::new(Mutex::new(HashMap::<SocketAddr, Vec<u8>>::new()));
    struct Tok(Arc<Mutex<HashMap<SocketAddr, Vec<u8>>>>);
    impl Scripted for Tok {
        fn on_datagram(&mut self, _: i64, d: &Dgram, _: &mut StdRng) -> Vec<(u64, SocketAddr, SocketAddr, Vec<u8>)> {
            if let Some((m, _)) = benc::parse(&d.bytes) {
                if let Some(tok) = m.get("r").and_then(|r| r.get("token")).and_then(|t| t.bytes()) {
                    self.0.lock().unwrap().insert(d.dst, tok.to_vec());
                }
            }
            vec![]
        }
    }
    let swarm = |day: u8| -> Vec<SocketAddr> { (0..100u8).map(|i| v4(10, 20 + day, 0, i + 1, 5000 + i as u16)).collect() };
    let (first, second) = (swarm(0), swarm(1));
    let asker = v4(10, 7, 0, 9, 4000);
    let mut all = first.clone();
    all.extend(second.iter().copied());
    all.push(asker);
    net.add_scripted(&all, Box::new(Tok(seen.clone())));
    let (ih_a, ih_b) = (rand_id(&mut rng), rand_id(&mut rng));
    let two_hashes = seed % 2 == 1;
    let tokens = |net: &Net, who: &[SocketAddr], rng: &mut StdRng, ih: &Id| {
        for (i, p) in who.iter().enumerate() {
            net.inject(*p, me, benc::q_get_peers(&[1, i as u8], &rand_id(rng), ih, None), 0);
        }
    };
    let announce = |net: &Net, who: &[SocketAddr], rng: &mut StdRng, ih: &Id, tag: u8, seen: &Arc<Mutex<HashMap<SocketAddr, Vec<u8>>>>| {
        for (i, p) in who.iter().enumerate() {
            if let Some(tok) = seen.lock().unwrap().get(p).cloned() {
                net.inject(*p, me, benc::q_announce(&[tag, i as u8], &rand_id(rng), ih, &tok, None, None), 0);
            }
        }
    };
    // day 1: the first swarm announces A (and B), then renews -- A in reverse order / only B
    tokens(&net, &first, &mut rng, &ih_a);
    sleep_ms(300).await;
    announce(&net, &first, &mut rng, &ih_a, 2, &seen);
    if two_hashes { announce(&net, &first, &mut rng, &ih_b, 3, &seen); }
    sleep_ms(60_000).await;
    let rev: Vec<SocketAddr> = first.iter().rev().copied().collect();
    if two_hashes { announce(&net, &first, &mut rng, &ih_b, 4, &seen); } else { announce(&net, &rev, &mut rng, &ih_a, 4, &seen); }
    sleep_ms(300).await;
    net.inject(asker, me, benc::q_get_peers(b"d1", &rand_id(&mut rng), &ih_a, None), 0);
    // a day later the second swarm announces A
    sleep_ms(86_400_000 + 600_000).await;
    tokens(&net, &second, &mut rng, &ih_a);
    sleep_ms(300).await;
    announce(&net, &second, &mut rng, &ih_a, 5, &seen);
    sleep_ms(300).await;
    for w in [None, Some("both")] {
        net.inject(asker, me, benc::q_get_peers(b"d2", &rand_id(&mut rng), &ih_a, w), 0);
    }
    sleep_ms(2000).await;
    api_state(&net, &dht, me).await;
    net.log(json!({"ev":"End"}));
}


/// C19: one node, no contacts (bootstrapped at once, every search ends immediately): more searches than one block of action ids
/// (2048), so that the allocator's first block is used up and the second begins while the refresh's prefix is still live.
async fn many_searches(net: Net, seed: u64, k: u64) {
    let mut rng = StdRng::seed_from_u64(seed);
    let me: SocketAddr = v4(10, 0, 0, 1, 7000);
    let dht = start_node(&net, &NodeCfg { addr: me, id: Some(rand_id(&mut rng)), read_only: seed % 2 == 0, announce_port: None, nodes: vec![], routers: vec![] });
    let _ = tokio::time::timeout(std::time::Duration::from_secs(60), wait_bootstrapped(&net, &dht, me, 1)).await;
    for i in 0..k {
        let s = search(&net, &dht, me, i + 1, rand_id(&mut rng), i % 2 == 0);
        let _ = tokio::time::timeout(std::time::Duration::from_secs(60), s).await;
        if i % 256 == 255 { sleep_ms(7000).await; }
    }
    sleep_ms(7000).await;
    api_state(&net, &dht, me).await;
    net.log(json!({"ev":"End"}));
}


/// C14, node level: a serving node receives the mutation corpus from many addresses, interleaved with valid queries;
/// afterwards it must still answer queries and complete every API call.
async fn flood(net: Net, seed: u64, corpus: String) {
    let mut rng = StdRng::seed_from_u64(seed);
    let my_id = rand_id(&mut rng);
    let nodes = oracle_universe(&mut rng, 12, false, None);
    let oracle = Arc::new(Mutex::new(OracleNet::new(nodes)));
    let addrs = oracle.lock().unwrap().addrs();
    // every datagram of the bootstrap phase arrives twice, back to back
    net.with(|n| { n.faults.max_latency_ms = 50; n.faults.dup_pct = 100; n.faults.dup_back_to_back = true; });
    net.add_scripted(&addrs, Box::new(oracle.clone()));
    let me: SocketAddr = v4(10, 0, 0, 1, 7000);
    let dht = start_node(&net, &NodeCfg { addr: me, id: Some(my_id), read_only: false, announce_port: None, nodes: addrs[..3].to_vec(), routers: vec![] });
    if tokio::time::timeout(std::time::Duration::from_secs(1200), wait_bootstrapped(&net, &dht, me, 1)).await.is_err() {
        net.log(json!({"ev":"End"}));
        return;
    }
    net.with(|n| n.faults.dup_pct = 20);
    let data: Vec<Vec<u8>> = std::fs::read_to_string(&corpus).unwrap_or_default().lines()
        .map(|l| (0..l.len() / 2).filter_map(|i| u8::from_str_radix(&l[2 * i..2 * i + 2], 16).ok()).collect()).collect();
    let ih = rand_id(&mut rng);
    for (i, d) in data.iter().enumerate() {
        let src = v4(10, 9, (i % 200) as u8, rng.gen_range(1..250), rng.gen_range(1024..60000));
        net.inject(src, me, d.clone(), 0);
        if i % 50 == 49 {
            // valid traffic in between
            let p = v4(10, 7, 0, 1, 4000);
            net.inject(p, me, benc::q_ping(&[1, 2], &rand_id(&mut rng)), 0);
            net.inject(p, me, benc::q_get_peers(&[3, 4, 5], &rand_id(&mut rng), &ih, None), 0);
            sleep_ms(20).await;
        }
    }
    sleep_ms(1000).await;
    let p = v4(10, 7, 0, 2, 4000);
    net.inject(p, me, benc::q_ping(b"after", &rand_id(&mut rng)), 0);
    net.inject(p, me, benc::q_find_node(b"after2", &rand_id(&mut rng), &my_id, None), 0);
    net.inject(p, me, benc::q_get_peers(b"after3", &rand_id(&mut rng), &ih, None), 0);
    sleep_ms(1000).await;
    api_state(&net, &dht, me).await;
    api_contacts(&net, &dht, me).await;
    api_local_addr(&net, &dht, me).await;
    let s = search(&net, &dht, me, 1, ih, false);
    let _ = tokio::time::timeout(std::time::Duration::from_secs(60), s).await;
    net.log(json!({"ev":"End"}));
}


/// Searches of one real node against an oracle network.
///   kind = coop    (C02): every queried node answers within one second with the truly closest nodes
///   kind = hostile (C03, C12): loss, delay, duplication, forged / replayed / mis-addressed responses, two concurrent searches
///   kind = timing  (C04): silence, errors, answers around the 1.5 s boundaries, chains of ever closer nodes, send failures
async fn lookup(net: Net, seed: u64, kind: String, n: usize, age_min: u64) {
    let mut rng = StdRng::seed_from_u64(seed);
    let my_id = rand_id(&mut rng);
    let target = rand_id(&mut rng);
    let placement = seed % 3; // 0 uniform, 1 clustered around the target, 2 clustered around the searcher
    let centre = match placement { 1 => Some(target), 2 => Some(my_id), _ => None };
    let v6net = kind == "coop" && seed % 5 == 4;
    let mut nodes = oracle_universe(&mut rng, n, v6net, centre);
    let coop = kind == "coop";
    // peers held by some nodes (both families; a node only sends the requester's family)
    for vn in nodes.iter_mut() {
        if rng.gen_range(0..3) == 0 {
            let k = rng.gen_range(1..5);
            let ps: Vec<SocketAddr> = (0..k).map(|j| if rng.gen_bool(0.7) { v4(172, 16, rng.gen(), j, 5000 + j as u16) } else { v6(3000 + rng.gen_range(0..50), 5000) }).collect();
            vn.peers.insert(target, ps);
        }
    }
    match kind.as_str() {
        "hostile" => {
            for vn in nodes.iter_mut() {
                vn.mode = match rng.gen_range(0..10) { 0..=3 => Mode::Hostile, 4 => Mode::Silent, 5 => Mode::DelayMs(rng.gen_range(1000..5000)), _ => Mode::Answer };
            }
        }
        "timing" => {
            let variant = seed % 6;
            for (i, vn) in nodes.iter_mut().enumerate() {
                vn.mode = match variant {
                    0 => Mode::Silent,                                  // nobody ever answers a search (bootstrap contacts do, see below)
                    1 => *[Mode::DelayMs(0), Mode::DelayMs(1499), Mode::DelayMs(1500), Mode::DelayMs(1501), Mode::DelayMs(2999), Mode::Silent].get(i % 6).unwrap(),
                    2 => if i % 2 == 0 { Mode::ErrorReply } else { Mode::Answer },
                    3 => Mode::Answer,                                  // chain (set up below)
                    4 => if i % 3 == 0 { Mode::Garbage } else { Mode::DelayMs(rng.gen_range(0..3000)) },
                    _ => Mode::Answer,                                  // send failures (set up below)
                };
            }
            if variant == 3 {
                // each node names exactly one node closer to the target: a chain as deep as the universe
                let mut order: Vec<usize> = (0..nodes.len()).collect();
                order.sort_by_key(|&i| xor(&nodes[i].id, &target));
                for w in (1..order.len()).rev() {
                    let next = (nodes[order[w - 1]].id, nodes[order[w - 1]].addr);
                    nodes[order[w]].truthful = false;
                    nodes[order[w]].names_extra = vec![next];
                }
                nodes[order[0]].truthful = false;
            }
        }
        _ => {}
    }
    let contacts: Vec<SocketAddr> = {
        let k = rng.gen_range(1..=nodes.len().min(4));
        let mut idx: Vec<usize> = (0..nodes.len()).collect();
        for i in 0..k { let j = rng.gen_range(i..idx.len()); idx.swap(i, j); }
        idx[..k].iter().map(|&i| nodes[i].addr).collect()
    };
    if kind == "timing" {
        // the bootstrap contacts must answer find_node or the node never gets a table; they fall silent later (variant 0)
        for vn in nodes.iter_mut() {
            if contacts.contains(&vn.addr) && matches!(vn.mode, Mode::Silent | Mode::ErrorReply | Mode::Garbage) {
                vn.mode = if seed % 6 == 0 { Mode::SilentFrom(60_000) } else { Mode::Answer };
            }
        }
    }
    let oracle = Arc::new(Mutex::new(OracleNet::new(nodes)));
    oracle.lock().unwrap().answer_delay_max = if coop { 500 } else { 800 };
    let addrs = oracle.lock().unwrap().addrs();
    let mut more: Vec<SocketAddr> = (1..=250u8).map(|i| v4(10, 66, 0, i, 6881)).collect(); // sources of mis-addressed answers
    more.push(v4(10, 250, 0, 1, 1));
    net.with(|nn| {
        nn.faults.max_latency_ms = if coop { 450 } else { 900 };
        if kind == "hostile" {
            nn.faults.drop_pct = (seed % 4) as u32 * 10;
            nn.faults.dup_pct = 15;
            nn.faults.extra_delay_pct = 15;
            nn.faults.extra_delay_ms = 4000;
        }
    });
    net.log(json!({"ev":"Universe","nodes":oracle.lock().unwrap().universe_json()}));
    net.log(json!({"ev":"Scenario","coop":coop,"kind":kind}));
    net.add_scripted(&addrs, Box::new(oracle.clone()));
    let me: SocketAddr = if v6net { v6(9000, 7000) } else { v4(10, 0, 0, 1, 7000) };
    let read_only = seed % 2 == 1;
    let aport = if seed % 3 == 0 { Some(7777) } else { None };
    let dht = start_node(&net, &NodeCfg { addr: me, id: Some(my_id), read_only, announce_port: aport, nodes: contacts, routers: vec![] });
    let ok = tokio::time::timeout(std::time::Duration::from_secs(1200), wait_bootstrapped(&net, &dht, me, 1)).await.is_ok();
    let _ = more;
    if !ok {
        net.log(json!({"ev":"End"}));
        return;
    }
    if kind == "timing" && seed % 6 == 0 {
        sleep_ms(61_000).await; // now everybody is silent
    }
    if kind == "timing" && seed % 6 == 5 {
        // datagrams towards a third of the universe cannot be sent
        let bad: Vec<SocketAddr> = addrs.iter().enumerate().filter(|(i, _)| i % 3 == 0).map(|(_, a)| *a).collect();
        net.with(|nn| { for a in bad { nn.send_fail.insert(a); } });
    }
    // searches: an announcing one for the target, a concurrent one for another hash, then repeats
    let other = rand_id(&mut rng);
    let s1 = search(&net, &dht, me, 1, target, true);
    let s2 = if kind != "coop" || seed % 2 == 0 { Some(search(&net, &dht, me, 2, other, kind == "hostile")) } else { None };
    // a search that never ends must not hang the scenario: it is reported by the End-of-run check instead
    let lim = std::time::Duration::from_secs(900);
    let _ = tokio::time::timeout(lim, s1).await;
    if let Some(s) = s2 { let _ = tokio::time::timeout(lim, s).await; }
    sleep_ms(rng.gen_range(100..3000)).await;
    let s3 = search(&net, &dht, me, 3, target, coop);
    let _ = tokio::time::timeout(lim, s3).await;
    if kind == "timing" && seed % 6 == 5 {
        net.with(|nn| nn.send_fail_all = true);
        let s4 = search(&net, &dht, me, 4, other, true);
        let _ = tokio::time::timeout(lim, s4).await;
        net.with(|nn| nn.send_fail_all = false);
    }
    // a long-lived node: the table ages (contacts turn questionable 15 minutes after their last answer and are re-validated by the
    // refresh, far buckets last), searches for fresh targets are started at scattered instants of that history
    let rounds = age_min * 60 / 180;
    for k in 0..rounds {
        sleep_ms(165_000 + rng.gen_range(0..30_000)).await;
        let t = rand_id(&mut rng);
        let s = search(&net, &dht, me, 10 + k as u64, t, true);
        let _ = tokio::time::timeout(lim, s).await;
    }
    sleep_ms(6000).await;
    api_state(&net, &dht, me).await;
    net.log(json!({"ev":"End"}));
}


/// C11 / C18: one real node and `npeers` scripted contacts, each always answering or going silent at some time; the node's
/// contacts are sampled every 5 virtual seconds for `minutes` minutes, with and without interleaved searches.
async fn maintenance(net: Net, seed: u64, npeers: usize, minutes: u64, mask: u64, given_all: bool, sendfail: bool, strangers: bool) {
    let mut rng = StdRng::seed_from_u64(seed);
    let my_id = rand_id(&mut rng);
    let mut nodes = oracle_universe(&mut rng, npeers, false, None);
    // distinct buckets as far as possible (no bucket may fill up): vary the first byte
    for (i, vn) in nodes.iter_mut().enumerate() {
        vn.id[0] = my_id[0] ^ (0x80u8 >> (i % 8)) ^ if i >= 8 { 0x01 } else { 0 };
    }
    let horizon = minutes as i64 * 60_000;
    let mut plan = vec![];
    for (i, vn) in nodes.iter_mut().enumerate() {
        // partition into always-answering and going-silent-at-t; keep the first contact answering so that bootstrap can succeed
        let silent = i > 0 && (mask >> i) & 1 == 1;
        if silent {
            let t = match (seed + i as u64) % 5 { 0 => 10_000, 1 => 14 * 60_000 + 58_000, 2 => 15 * 60_000, 3 => horizon / 2, _ => rng.gen_range(20_000..horizon.max(40_000)) };
            vn.mode = Mode::SilentFrom(t);
            plan.push(json!({"id": bytes_json(&vn.id), "addr": addr_json(&vn.addr), "mode": "SilentFrom", "t": t}));
        } else {
            plan.push(json!({"id": bytes_json(&vn.id), "addr": addr_json(&vn.addr), "mode": "Answer", "t": 0}));
        }
    }
    // "strangers": the two bootstrap contacts do not know each other -- nobody ever names the second contact, which itself names
    // nobody and answers slowly, so that its first answer arrives as that of a complete newcomer while the nodes named by the first
    // contact are still questionable
    if strangers && nodes.len() >= 3 {
        let all: Vec<(Id, SocketAddr)> = nodes.iter().map(|n| (n.id, n.addr)).collect();
        for (i, vn) in nodes.iter_mut().enumerate() {
            vn.truthful = false;
            vn.names_extra = if i == 1 { vec![] } else { all.iter().enumerate().filter(|(j, _)| *j != 1 && *j != i).map(|(_, x)| *x).collect() };
        }
        nodes[1].mode = Mode::DelayMs(700);
        plan[1]["mode"] = json!("Slow");
    }
    let oracle = Arc::new(Mutex::new(OracleNet::new(nodes)));
    oracle.lock().unwrap().answer_delay_max = 300;
    // in every second run the network forgets its dead: two minutes after a peer fell silent the others stop naming it
    // (otherwise a silent peer keeps being named for ever and the "gone within 20 minutes" clause never comes due)
    if seed % 2 == 1 {
        oracle.lock().unwrap().forget_dead_after = Some(120_000);
    }
    let addrs = oracle.lock().unwrap().addrs();
    net.with(|n| n.faults.max_latency_ms = 600);
    let me: SocketAddr = v4(10, 0, 0, 1, 7000);
    net.log(json!({"ev":"Universe","nodes":oracle.lock().unwrap().universe_json()}));
    net.add_scripted(&addrs, Box::new(oracle.clone()));
    // the node is given one or all contacts; the others it learns by hearsay from the first (which names the closest 8)
    let given: Vec<SocketAddr> = if strangers { vec![addrs[0], addrs[1]] } else if given_all { addrs.clone() } else { vec![addrs[0]] };
    if sendfail {
        // datagrams towards the last contact cannot be sent at all (it is only known by hearsay)
        let bad = *addrs.last().unwrap();
        net.with(|n| { n.send_fail.insert(bad); });
    }
    let dht = start_node(&net, &NodeCfg { addr: me, id: Some(my_id), read_only: seed % 3 == 0, announce_port: None, nodes: given, routers: vec![] });
    let with_searches = seed % 4 == 1;
    net.log(json!({"ev":"Plan","node":addr_json(&me),"peers":plan,"searches":with_searches}));
    if tokio::time::timeout(std::time::Duration::from_secs(1200), wait_bootstrapped(&net, &dht, me, 1)).await.is_err() {
        net.log(json!({"ev":"End"}));
        return;
    }
    let mut sid = 10;
    let steps = minutes * 12;
    for k in 0..steps {
        sleep_ms(5000).await;
        api_contacts(&net, &dht, me).await;
        if with_searches && k % 60 == 30 {
            sid += 1;
            let _ = search(&net, &dht, me, sid, rand_id(&mut rng), k % 120 == 30);
        }
        if k % 120 == 0 {
            // a find_node probe by a scripted prober: the answer must not list purged contacts (checked as C09 on the wire)
            net.inject(v4(10, 7, 0, 9, 4000), me, benc::q_find_node(&[9, 9, (k % 250) as u8], &rand_id(&mut rng), &my_id, None), 0);
        }
    }
    sleep_ms(5000).await;
    api_state(&net, &dht, me).await;
    net.log(json!({"ev":"End"}));
}

/// C15: builder configurations, silent / erroring / garbage contacts, outages, concurrent bootstrapped() callers.
async fn bootstrap_scn(net: Net, seed: u64) {
    let mut rng = StdRng::seed_from_u64(seed);
    let my_id = rand_id(&mut rng);
    let variant = seed % 8;
    // one seed in sixteen: the only contact is a router whose name has no address of the node's family (an IPv6 literal for an
    // IPv4 node): nothing can be asked, nobody answers, so bootstrapped() must not resolve (the worker idles and retries)
    let unresolvable = seed % 16 == 15;
    let ncontacts: usize = if unresolvable { 0 } else { match variant { 0 => 0, 1 => 1, 2 => 2, 3 => 8, 4 => 9, 5 => 30, 6 => 3, _ => 2 } };
    let mut nodes = oracle_universe(&mut rng, ncontacts.max(1) + 6, false, None);
    for (i, vn) in nodes.iter_mut().enumerate().skip(1) {
        if i < ncontacts {
            vn.mode = match rng.gen_range(0..6) { 0 => Mode::Silent, 1 => Mode::ErrorReply, 2 => Mode::Garbage, _ => Mode::Answer };
        }
    }
    let oracle = Arc::new(Mutex::new(OracleNet::new(nodes)));
    oracle.lock().unwrap().answer_delay_max = 200;
    let addrs = oracle.lock().unwrap().addrs();
    net.with(|n| n.faults.max_latency_ms = 500);
    // one run in four: every datagram arrives twice, back to back (a contact's answer is read twice before anybody consumed it)
    if seed % 4 == 3 {
        net.with(|n| { n.faults.dup_pct = 100; n.faults.dup_back_to_back = true; });
    }
    net.add_scripted(&addrs, Box::new(oracle.clone()));
    let me: SocketAddr = v4(10, 0, 0, 1, 7000);
    let contacts: Vec<SocketAddr> = addrs[..ncontacts].to_vec();
    // variants 6 / 7: a contact given both as node and as router, duplicated routers
    let routers: Vec<String> = if unresolvable { vec!["[2001:db8::77]:6881".to_owned()] }
                               else { match variant { 6 => vec![contacts[0].to_string(), contacts[1].to_string()], 7 => vec![contacts[0].to_string()], _ => vec![] } };
    // outage: the network is unreachable from the start for `outage` ms (plain-node configurations)
    let outage: u64 = match seed % 7 { 0 => 0, 1 => 30_000, 2 => 600_000, 3 => 1_500_000, 4 => 1_850_000 + (seed * 37_000) % 700_000, 5 => 2_400_000 + (seed * 91_000) % 900_000, _ => 7_200_000 };
    let outage = if ncontacts == 0 { 0 } else { outage };
    net.with(|n| n.down = outage > 0);
    let dht = start_node(&net, &NodeCfg { addr: me, id: Some(my_id), read_only: seed % 2 == 0, announce_port: None, nodes: contacts.clone(), routers });
    net.log(json!({"ev":"Responsive","node":addr_json(&me),"since":outage as i64}));
    let mut waiters = vec![];
    let mut wid = 0;
    for _ in 0..rng.gen_range(1..4) {
        wid += 1;
        waiters.push(wait_bootstrapped(&net, &dht, me, wid));
        sleep_ms(rng.gen_range(0..3000)).await;
    }
    if outage > 0 {
        let now = net.with(|n| n.rec.now()) as u64;
        // flapping: short reachability windows that are too short to help (only the initial datagram gets through)
        if seed % 3 == 0 && outage > 120_000 {
            sleep_ms(50_000).await;
            net.with(|n| n.down = false);
            sleep_ms(40).await;
            net.with(|n| n.down = true);
        }
        let now2 = net.with(|n| n.rec.now()) as u64;
        // more waiters during the outage
        sleep_ms((outage - now2.min(outage)) / 2).await;
        wid += 1;
        waiters.push(wait_bootstrapped(&net, &dht, me, wid));
        api_state(&net, &dht, me).await;
        let now3 = net.with(|n| n.rec.now()) as u64;
        sleep_ms(outage.saturating_sub(now3)).await;
        net.with(|n| n.down = false);
        let _ = now;
    }
    // wait up to 12 minutes for everybody
    for w in waiters {
        let _ = tokio::time::timeout(std::time::Duration::from_secs(720), w).await;
    }
    // a second outage after the node was bootstrapped: waiters registered during a RE-bootstrap must be told as well
    if ncontacts > 0 && ncontacts < 10 && seed % 2 == 1 {
        net.with(|n| n.down = true);
        sleep_ms(rng.gen_range(20_000..200_000)).await;
        let mut ws = vec![];
        for _ in 0..2 {
            wid += 1;
            ws.push(wait_bootstrapped(&net, &dht, me, wid));
            sleep_ms(rng.gen_range(0..5000)).await;
        }
        let t = net.with(|n| { n.down = false; n.rec.now() });
        net.log(json!({"ev":"Responsive","node":addr_json(&me),"since":t}));
        for w in ws {
            let _ = tokio::time::timeout(std::time::Duration::from_secs(720), w).await;
        }
    }
    api_state(&net, &dht, me).await;
    api_contacts(&net, &dht, me).await;
    api_local_addr(&net, &dht, me).await;
    net.log(json!({"ev":"End"}));
}

/// C16: searches issued before / during / after the initial bootstrap, each compared with a twin issued afterwards.
async fn early_search(net: Net, seed: u64) {
    let mut rng = StdRng::seed_from_u64(seed);
    let my_id = rand_id(&mut rng);
    let target = rand_id(&mut rng);
    let mut nodes = oracle_universe(&mut rng, 12 + (seed % 3) as usize * 10, false, Some(target));
    for vn in nodes.iter_mut() {
        if rng.gen_range(0..2) == 0 {
            vn.peers.insert(target, (0..rng.gen_range(1..4)).map(|j| v4(172, 16, rng.gen(), j, 5000)).collect());
        }
    }
    // bootstrap duration: the first contact may be unreachable for the first seconds (the first attempt then fails)
    let late = seed % 4 == 2;
    if late {
        nodes[0].mode = Mode::DelayMs(0);
    }
    let oracle = Arc::new(Mutex::new(OracleNet::new(nodes)));
    oracle.lock().unwrap().answer_delay_max = if seed % 2 == 0 { 50 } else { 700 };
    let addrs = oracle.lock().unwrap().addrs();
    net.with(|n| { n.faults.max_latency_ms = 400; n.down = late; });
    net.log(json!({"ev":"Universe","nodes":oracle.lock().unwrap().universe_json()}));
    net.log(json!({"ev":"Scenario","coop":false,"kind":"early"}));
    // in one run out of four, datagrams towards two nodes of the universe (known by hearsay only) cannot be sent at all
    if seed % 4 == 1 {
        net.with(|n| { n.send_fail.insert(addrs[2]); n.send_fail.insert(addrs[3]); });
    }
    net.add_scripted(&addrs, Box::new(oracle.clone()));
    let me: SocketAddr = v4(10, 0, 0, 1, 7000);
    let dht = start_node(&net, &NodeCfg { addr: me, id: Some(my_id), read_only: true, announce_port: None, nodes: vec![addrs[0]], routers: vec![] });
    let w = wait_bootstrapped(&net, &dht, me, 1);
    // in two runs out of three the application also polls get_state() every virtual millisecond while the bootstrap is under way
    // (so that some status query is handled in the very instant the bootstrap completes); the polls are not recorded
    let polling = Arc::new(std::sync::atomic::AtomicBool::new(seed % 3 != 0));
    if seed % 3 != 0 {
        let (d2, p2, n2) = (dht.clone(), polling.clone(), net.clone());
        tokio::task::spawn_local(async move {
            'poll: while p2.load(std::sync::atomic::Ordering::Relaxed) {
                // twice per instant, back to back: the second query is sent as soon as the first is answered, ahead of whatever the first one's handling woke up
                for _ in 0..1 {
                    if tokio::time::timeout(std::time::Duration::from_secs(10), d2.get_state()).await.ok().flatten().is_none() {
                        n2.log(json!({"ev":"ApiState","node":addr_json(&me),"alive":false}));
                        break 'poll;
                    }
                }
                sleep_ms(1).await;
            }
        });
    }
    // early searches at different moments; the same hash may be searched twice (with and without announce)
    let moments: Vec<u64> = match seed % 5 { 0 => vec![0], 1 => vec![0, 100], 2 => vec![0, 0, 3100], 3 => vec![50, 1200, 2600, 3300], _ => vec![0, 4000] };
    let mut early = vec![];
    let mut sid = 0;
    let mut at = 0;
    for (k, m) in moments.iter().enumerate() {
        sleep_ms(m - at).await;
        at = *m;
        sid += 1;
        // the oracle stores announces, so only non-announcing searches have comparable twins; announcing ones are checked for
        // being carried out at all
        let ann = k % 2 == 1;
        early.push((sid, ann, search(&net, &dht, me, sid, target, ann)));
        if late && at >= 3000 {
            net.with(|n| n.down = false);
        }
    }
    if late {
        sleep_ms(3000u64.saturating_sub(at)).await;
        net.with(|n| n.down = false);
    }
    let _ = tokio::time::timeout(std::time::Duration::from_secs(900), w).await;
    sleep_ms(50).await;
    polling.store(false, std::sync::atomic::Ordering::Relaxed);
    // the twin: the same search right after bootstrapped() resolved (nothing was announced yet: announces happen at the end
    // of the early searches, which run concurrently; therefore the twin is compared with the non-announcing early searches only
    // when no announcing early search exists)
    let any_ann = early.iter().any(|(_, a, _)| *a);
    sid += 1;
    let twin_sid = sid;
    let twin = search(&net, &dht, me, twin_sid, target, false);
    for (s, ann, h) in early {
        let _ = tokio::time::timeout(std::time::Duration::from_secs(120), h).await;
        // (with unsendable nodes a round in which nothing could be sent ends the waiting for the other rounds' answers too, so what
        // a search yields then depends on the instant it runs: no twin comparison in those runs)
        if !ann && !any_ann && seed % 4 != 1 {
            net.log(json!({"ev":"Twin","node":addr_json(&me),"a":s,"b":twin_sid}));
        }
    }
    let _ = tokio::time::timeout(std::time::Duration::from_secs(120), twin).await;
    sleep_ms(5000).await;
    api_state(&net, &dht, me).await;
    net.log(json!({"ev":"End"}));
}


/// C01: N real serving nodes that all know each other; announcing searches and plain searches in every order, separated by
/// virtual-time gaps from seconds to more than 24 hours.  Recorded in projection mode.
async fn e2e(net: Net, seed: u64, n: usize, long: bool, full: bool) {
    let mut rng = StdRng::seed_from_u64(seed);
    let v6net = seed % 3 == 2;
    net.with(|nn| { nn.rec.projection = !full; nn.faults.max_latency_ms = 1000; });
    net.log(json!({"ev":"Scenario","coop":false,"kind":"e2e","projection":!full}));
    let addrs: Vec<SocketAddr> = (0..n).map(|i| if v6net { v6(100 + i as u16, 7000 + i as u16) } else { v4(10, 0, 1, i as u8 + 1, 7000 + i as u16) }).collect();
    // ids: random, or adversarial (all in one bucket of each other / differing only in the last bits)
    let base = rand_id(&mut rng);
    let ids: Vec<Id> = (0..n).map(|i| match seed % 4 { 1 => { let mut x = base; x[19] = i as u8; x } 3 => { let mut x = base; x[0] ^= (i as u8) << 3; x[5] = rng.gen(); x } _ => rand_id(&mut rng) }).collect();
    let mut dhts = vec![];
    for i in 0..n {
        let others: Vec<SocketAddr> = addrs.iter().enumerate().filter(|(j, _)| *j != i).map(|(_, a)| *a).collect();
        let aport = if (seed >> i) & 1 == 1 { Some(40000 + i as u16) } else { None };
        dhts.push(start_node(&net, &NodeCfg { addr: addrs[i], id: Some(ids[i]), read_only: false, announce_port: aport, nodes: others, routers: vec![] }));
    }
    for (i, d) in dhts.iter().enumerate() {
        let _ = tokio::time::timeout(std::time::Duration::from_secs(900), wait_bootstrapped(&net, d, addrs[i], i as u64 + 1)).await;
    }
    sleep_ms(20_000).await; // everybody has heard from everybody
    let hashes = [rand_id(&mut rng), rand_id(&mut rng)];
    let mut sid = 0u64;
    if long && seed % 2 == 0 {
        // re-announce script: announce at 0 h and again at 12 h; everybody else must find the announcer at 25 h and at 35 h
        // (within 24 h of the LAST announce) and nobody may find it at 37 h
        let a = 0usize;
        for (k, gap_h) in [(0u64, 12u64), (1, 13), (2, 10), (3, 2), (4, 1)] {
            if k <= 1 {
                sid += 1;
                let h = search(&net, &dhts[a], addrs[a], sid, hashes[0], true);
                let _ = tokio::time::timeout(std::time::Duration::from_secs(300), h).await;
                sleep_ms(1500).await;
            }
            for j in 0..n {
                if j != a {
                    sid += 1;
                    let hj = search(&net, &dhts[j], addrs[j], sid, hashes[0], false);
                    let _ = tokio::time::timeout(std::time::Duration::from_secs(300), hj).await;
                }
            }
            sleep_ms(gap_h * 3_600_000).await;
        }
        for j in 0..n {
            sid += 1;
            let hj = search(&net, &dhts[j], addrs[j], sid, hashes[0], false);
            let _ = tokio::time::timeout(std::time::Duration::from_secs(300), hj).await;
        }
        for (i, d) in dhts.iter().enumerate() {
            api_state(&net, d, addrs[i]).await;
        }
        net.log(json!({"ev":"End"}));
        return;
    }
    let gaps_short: [u64; 8] = [1_000, 5_000, 60_000, 600_000, 1_260_000, 1_800_000, 3_600_000, 7_200_000];
    let script_len = if long { 8 } else { 14 };
    for step in 0..script_len {
        let ih = hashes[if step % 5 == 4 { 1 } else { 0 }];
        let who = rng.gen_range(0..n);
        let announce = step == 0 || rng.gen_range(0..3) == 0;
        sid += 1;
        let h = search(&net, &dhts[who], addrs[who], sid, ih, announce);
        if rng.gen_bool(0.3) {
            // a concurrent search from another node
            let other = (who + 1 + rng.gen_range(0..n - 1)) % n;
            sid += 1;
            let h2 = search(&net, &dhts[other], addrs[other], sid, ih, false);
            let _ = tokio::time::timeout(std::time::Duration::from_secs(300), h2).await;
        }
        let _ = tokio::time::timeout(std::time::Duration::from_secs(300), h).await;
        // the announces sent at the end of the search are under way for less than a second
        sleep_ms(if step % 4 == 1 { 200 } else { 1100 }).await;
        // every other node searches as well
        if step % 3 == 0 {
            for j in 0..n {
                if j != who {
                    sid += 1;
                    let hj = search(&net, &dhts[j], addrs[j], sid, ih, false);
                    let _ = tokio::time::timeout(std::time::Duration::from_secs(300), hj).await;
                }
            }
        }
        let gap = if long {
            *[3_600_000u64, 23 * 3_600_000 + 59 * 60_000, 24 * 3_600_000 + 60_000, 25 * 3_600_000, 600_000, 12 * 3_600_000].get(step % 6).unwrap()
        } else {
            gaps_short[rng.gen_range(0..gaps_short.len())]
        };
        sleep_ms(gap).await;
    }
    // final round: everybody searches both hashes
    for j in 0..n {
        for ih in hashes {
            sid += 1;
            let hj = search(&net, &dhts[j], addrs[j], sid, ih, false);
            let _ = tokio::time::timeout(std::time::Duration::from_secs(300), hj).await;
        }
    }
    for (i, d) in dhts.iter().enumerate() {
        api_state(&net, d, addrs[i]).await;
    }
    net.log(json!({"ev":"End"}));
}
