//! In-memory network on tokio's virtual clock: real btdht nodes (through the public `SocketTrait`), scripted remote
//! parties, per-datagram latency / loss / duplication, and a recorder that writes every observable step as one
//! NDJSON line in program order of the single thread (DESIGN §4.2, §4.3).

use crate::benc::{self, B};
use crate::util::*;
use async_trait::async_trait;
use btdht::verif::{self, Val};
use btdht::{MainlineDht, SocketTrait};
use futures_util::StreamExt;
use rand::{rngs::StdRng, Rng, SeedableRng};
use serde_json::{json, Value};
use std::{
    cmp::Reverse,
    collections::{BinaryHeap, HashMap, HashSet},
    io,
    net::SocketAddr,
    sync::{Arc, Mutex},
    time::Duration,
};
use tokio::sync::{mpsc, Notify};

pub type Id = [u8; 20];

pub fn xor(a: &Id, b: &Id) -> Id {
    let mut o = [0u8; 20];
    for i in 0..20 {
        o[i] = a[i] ^ b[i];
    }
    o
}

// ------------------------------------------------------------------------------------------- recorder

pub struct Recorder {
    out: TraceOut,
    seq: u64,
    base: i64,
    tables: HashMap<String, Vec<Value>>, // last dumped buckets per node (for diffs)
    pub quiet_dumps: bool,
    /// Projection mode (C01, runs of many virtual hours): only the lines that can touch token stores, peer stores and search
    /// records are written (DESIGN §5 C01); table dumps are not carried.
    pub projection: bool,
    keep_step: HashSet<String>,
    seen_success: HashSet<String>,
}

impl Recorder {
    pub fn new(path: &str) -> Res<Self> {
        Ok(Self { out: TraceOut::create(path)?, seq: 0, base: 0, tables: HashMap::new(), quiet_dumps: false, projection: false,
                  keep_step: HashSet::new(), seen_success: HashSet::new() })
    }
    pub fn reset(&mut self) {
        self.base = verif::now_ms();
        self.tables.clear();
        self.put(json!({"ev":"Reset"}));
    }
    pub fn now(&self) -> i64 {
        verif::now_ms() - self.base
    }
    pub fn put(&mut self, mut v: Value) {
        if self.projection && !self.project(&mut v) {
            return;
        }
        self.seq += 1;
        v["seq"] = json!(self.seq);
        v["t"] = json!(self.now());
        self.out.put(v);
        // keep the file complete up to the last step even if the code under test aborts the process
        self.out.flush();
    }
    pub fn finish(&mut self) -> u64 {
        self.out.flush()
    }

    fn project(&mut self, v: &mut Value) -> bool {
        let ev = v["ev"].as_str().unwrap_or("").to_owned();
        let node = v["node"].to_string();
        match ev.as_str() {
            "Reset" | "NodeCfg" | "NodeStart" | "ApiSearch" | "LookupStart" | "LookupDone" | "LookupQueued" | "Yield" | "Closed" | "End"
            | "Scenario" | "ApiState" | "ApiBootWait" | "ApiBootRet" | "Shutdown" => true,
            "BootSuccess" => self.seen_success.insert(node),
            "Recv" => {
                let q = v["m"]["q"].as_str().unwrap_or("");
                if v["m"]["y"] == "q" && (q == "announce_peer" || q == "get_peers") {
                    self.keep_step.insert(node);
                    true
                } else {
                    false
                }
            }
            "HStep" => v["kind"] == "incoming" && self.keep_step.contains(&node),
            "Send" => self.keep_step.contains(&node) && v["m"]["y"] != "q",
            "HEnd" => {
                if self.keep_step.remove(&node) {
                    v["ch"] = json!([1, []]);
                    true
                } else {
                    false
                }
            }
            _ => false,
        }
    }

    fn val_json(&self, v: &Val) -> Value {
        match v {
            Val::Null => json!(-1),
            Val::Bool(b) => json!(b),
            Val::Int(i) => json!(i),
            Val::Bytes(b) => bytes_json(b),
            Val::Str(s) => json!(s),
            Val::Addr(a) => addr_json(a),
            Val::List(l) => Value::Array(l.iter().map(|x| self.val_json(x)).collect()),
            Val::Rec(r) => {
                let mut o = serde_json::Map::new();
                for (k, x) in r {
                    o.insert((*k).to_owned(), self.val_json(x));
                }
                Value::Object(o)
            }
        }
    }

    /// Table dumps are turned into diffs against the previous dump of that node: [nb, [[index, slots]...]].
    fn table_diff(&mut self, node: &str, table: &Val) -> Value {
        const NONE_T: i64 = -2_000_000_000;
        let base = self.base;
        let mut cur: Vec<Value> = vec![];
        if let Val::List(buckets) = table {
            for b in buckets {
                if let Val::List(slots) = b {
                    let sj: Vec<Value> = slots
                        .iter()
                        .map(|s| match s {
                            Val::Rec(f) => {
                                let mut o = serde_json::Map::new();
                                for (k, x) in f {
                                    let v = match (*k, x) {
                                        ("rsp" | "req" | "loc", Val::Int(t)) => json!(t - base),
                                        ("rsp" | "req" | "loc", Val::Null) => json!(NONE_T),
                                        _ => self.val_json(x),
                                    };
                                    o.insert((*k).to_owned(), v);
                                }
                                Value::Object(o)
                            }
                            _ => json!({"e": 1}),
                        })
                        .collect();
                    cur.push(Value::Array(sj));
                }
            }
        }
        let prev = self.tables.entry(node.to_owned()).or_default();
        let mut ch = vec![];
        for (i, b) in cur.iter().enumerate() {
            if prev.get(i) != Some(b) {
                ch.push(json!([i + 1, b]));
            }
        }
        let nb = cur.len();
        *prev = cur;
        json!([nb, ch])
    }

    /// An event reported by a hook inside btdht.
    pub fn hook(&mut self, e: verif::Event) {
        let mut o = serde_json::Map::new();
        o.insert("ev".into(), json!(e.kind));
        let mut node = String::new();
        for (k, v) in &e.fields {
            if *k == "node" {
                if let Val::Addr(a) = v {
                    node = a.to_string();
                }
            }
        }
        for (k, v) in &e.fields {
            if *k == "table" {
                let d = self.table_diff(&node, v);
                o.insert("ch".into(), d);
            } else if *k == "aid" {
                if let Val::Int(a) = v {
                    o.insert("aid".into(), json!(format!("{:010x}", a)));
                }
            } else if *k == "refresh_aid" {
                if let Val::Int(a) = v {
                    o.insert("refresh_aid".into(), json!(format!("{:010x}", a)));
                }
            } else if *k == "what" && e.kind == "HStep" {
                if let Val::Str(w) = v {
                    match w.split_once(':') {
                        Some((a, b)) if a.starts_with("Lookup") || a == "TableRefresh" => {
                            o.insert("what".into(), json!(a));
                            o.insert("tid".into(), json!(b));
                        }
                        _ => {
                            o.insert("what".into(), json!(w));
                            o.insert("tid".into(), json!(""));
                        }
                    }
                }
            } else {
                o.insert((*k).to_owned(), self.val_json(v));
            }
        }
        self.put(Value::Object(o));
    }
}

// -------------------------------------------------------------------------------------------- network

pub struct Dgram {
    pub src: SocketAddr,
    pub dst: SocketAddr,
    pub bytes: Vec<u8>,
}

/// A remote party that is not a btdht node. Called when a datagram is delivered to one of its addresses; returns
/// datagrams to send: (delay_ms, from, to, bytes).
pub trait Scripted: Send {
    fn on_datagram(&mut self, now: i64, d: &Dgram, rng: &mut StdRng) -> Vec<(u64, SocketAddr, SocketAddr, Vec<u8>)>;
}

#[derive(Clone)]
pub struct Faults {
    pub drop_pct: u32,      // of datagrams between scripted parties and nodes
    pub dup_pct: u32,
    pub extra_delay_pct: u32, // chance of an extra delay of up to extra_delay_ms
    pub extra_delay_ms: u64,
    pub max_latency_ms: u64, // uniform in [0, max)
    pub dup_back_to_back: bool, // duplicates are delivered right behind the original
}

impl Default for Faults {
    fn default() -> Self {
        Faults { drop_pct: 0, dup_pct: 0, extra_delay_pct: 0, extra_delay_ms: 0, max_latency_ms: 1000, dup_back_to_back: false }
    }
}

pub struct NetInner {
    queue: BinaryHeap<Reverse<(i64, u64, usize)>>, // (due, seq, index into store)
    store: Vec<Option<Dgram>>,
    qseq: u64,
    inboxes: HashMap<SocketAddr, mpsc::UnboundedSender<(Vec<u8>, SocketAddr)>>,
    scripted: Vec<Box<dyn Scripted>>,
    scripted_at: HashMap<SocketAddr, usize>,
    pub rng: StdRng,
    pub faults: Faults,
    pub down: bool,                      // network unreachable: everything is dropped
    pub send_fail: HashSet<SocketAddr>,  // send_to towards these destinations returns an error
    pub send_fail_all: bool,
    pub rec: Recorder,
    pub sent_count: u64,
}

#[derive(Clone)]
pub struct Net {
    pub inner: Arc<Mutex<NetInner>>,
    notify: Arc<Notify>,
}

impl Net {
    pub fn new(seed: u64, rec: Recorder) -> Self {
        let inner = NetInner {
            queue: BinaryHeap::new(),
            store: vec![],
            qseq: 0,
            inboxes: HashMap::new(),
            scripted: vec![],
            scripted_at: HashMap::new(),
            rng: StdRng::seed_from_u64(seed),
            faults: Faults::default(),
            down: false,
            send_fail: HashSet::new(),
            send_fail_all: false,
            rec,
            sent_count: 0,
        };
        Net { inner: Arc::new(Mutex::new(inner)), notify: Arc::new(Notify::new()) }
    }

    pub fn with<R>(&self, f: impl FnOnce(&mut NetInner) -> R) -> R {
        f(&mut self.inner.lock().unwrap())
    }

    pub fn log(&self, v: Value) {
        self.with(|n| n.rec.put(v));
    }

    pub fn add_scripted(&self, addrs: &[SocketAddr], s: Box<dyn Scripted>) {
        self.with(|n| {
            let idx = n.scripted.len();
            n.scripted.push(s);
            for a in addrs {
                n.scripted_at.insert(*a, idx);
            }
        });
    }

    /// Queue a datagram for delivery after `delay` ms (no latency added, no faults applied).
    pub fn inject(&self, src: SocketAddr, dst: SocketAddr, bytes: Vec<u8>, delay: u64) {
        self.with(|n| n.enqueue(Dgram { src, dst, bytes }, delay));
        self.notify.notify_one();
    }

    /// Create the socket of a real node.
    pub fn socket(&self, addr: SocketAddr) -> SimSocket {
        let (tx, rx) = mpsc::unbounded_channel();
        self.with(|n| n.inboxes.insert(addr, tx));
        SimSocket { addr, net: self.clone(), rx: tokio::sync::Mutex::new(rx) }
    }

    /// The delivery pump; spawn once per runtime.
    pub async fn pump(self) {
        loop {
            let due = self.with(|n| n.queue.peek().map(|Reverse((d, _, _))| *d));
            match due {
                None => self.notify.notified().await,
                Some(due) => {
                    let now = self.with(|n| n.rec.now());
                    if due > now {
                        tokio::select! {
                            _ = tokio::time::sleep(Duration::from_millis((due - now) as u64)) => {}
                            _ = self.notify.notified() => { continue; }
                        }
                    }
                    self.deliver_due();
                }
            }
        }
    }

    fn deliver_due(&self) {
        loop {
            let mut n = self.inner.lock().unwrap();
            let now = n.rec.now();
            let Some(Reverse((due, _, idx))) = n.queue.peek().copied() else { return };
            if due > now {
                return;
            }
            n.queue.pop();
            let Some(d) = n.store[idx].take() else { continue };
            if let Some(tx) = n.inboxes.get(&d.dst) {
                // the node logs the datagram itself when its socket hands it over (SimSocket::recv_from)
                let _ = tx.send((d.bytes, d.src));
            } else if let Some(&si) = n.scripted_at.get(&d.dst) {
                let NetInner { scripted, rng, .. } = &mut *n;
                let outs = scripted[si].on_datagram(now, &d, rng);
                for (delay, from, to, bytes) in outs {
                    n.rec.put(json!({"ev":"PeerSend","src":addr_json(&from),"dst":addr_json(&to),"m":benc::describe(&bytes)}));
                    n.route(Dgram { src: from, dst: to, bytes }, delay, true);
                }
            }
            // unknown destination: lost
        }
    }
}

impl NetInner {
    fn enqueue(&mut self, d: Dgram, delay: u64) {
        let due = self.rec.now() + delay as i64;
        self.qseq += 1;
        self.store.push(Some(d));
        self.queue.push(Reverse((due, self.qseq, self.store.len() - 1)));
    }

    /// Apply latency and faults, then queue.
    fn route(&mut self, d: Dgram, base_delay: u64, from_scripted: bool) {
        if self.down {
            return;
        }
        let f = self.faults.clone();
        if f.drop_pct > 0 && self.rng.gen_range(0..100) < f.drop_pct {
            return;
        }
        let mut delay = base_delay;
        if !from_scripted {
            delay += if f.max_latency_ms > 0 { self.rng.gen_range(0..f.max_latency_ms) } else { 0 };
        }
        if f.extra_delay_pct > 0 && self.rng.gen_range(0..100) < f.extra_delay_pct {
            delay += self.rng.gen_range(0..=f.extra_delay_ms);
        }
        if f.dup_pct > 0 && self.rng.gen_range(0..100) < f.dup_pct {
            let extra = if f.dup_back_to_back { 0 } else { self.rng.gen_range(0..=1500) };
            self.enqueue(Dgram { src: d.src, dst: d.dst, bytes: d.bytes.clone() }, delay + extra);
        }
        self.enqueue(d, delay);
    }
}

pub struct SimSocket {
    addr: SocketAddr,
    net: Net,
    rx: tokio::sync::Mutex<mpsc::UnboundedReceiver<(Vec<u8>, SocketAddr)>>,
}

#[async_trait]
impl SocketTrait for SimSocket {
    async fn send_to(&self, buf: &[u8], target: &SocketAddr) -> io::Result<()> {
        let r = self.net.with(|n| {
            n.sent_count += 1;
            let fail = n.send_fail_all || n.send_fail.contains(target);
            n.rec.put(json!({"ev":"Send","node":addr_json(&self.addr),"dst":addr_json(target),"ok":!fail,"m":benc::describe(buf)}));
            if fail {
                return Err(io::Error::new(io::ErrorKind::PermissionDenied, "simulated send failure"));
            }
            n.route(Dgram { src: self.addr, dst: *target, bytes: buf.to_vec() }, 0, false);
            Ok(())
        });
        self.net.notify.notify_one();
        r
    }

    async fn recv_from(&self, buf: &mut [u8]) -> io::Result<(usize, SocketAddr)> {
        let mut rx = self.rx.lock().await;
        match rx.recv().await {
            Some((bytes, src)) => {
                let n = bytes.len().min(buf.len());
                buf[..n].copy_from_slice(&bytes[..n]);
                self.net.with(|net| {
                    net.rec.put(json!({"ev":"Recv","node":addr_json(&self.addr),"src":addr_json(&src),"m":benc::describe(&bytes[..n])}))
                });
                Ok((n, src))
            }
            None => std::future::pending().await,
        }
    }

    fn local_addr(&self) -> io::Result<SocketAddr> {
        Ok(self.addr)
    }
}

// ------------------------------------------------------------------------------------- oracle network

#[derive(Clone, Copy, PartialEq, Debug)]
pub enum Mode {
    Answer,          // answers every query truthfully
    Silent,          // never answers
    SilentFrom(i64), // answers until virtual time t (ms), then silent
    ErrorReply,      // answers every query with error 201
    Garbage,         // answers with an undecodable datagram
    DelayMs(u64),    // answers after a fixed delay
    EchoQuery,       // first sends a ping carrying the transaction id of the query it received, then answers
    Hostile,         // answers, and additionally sends forged / replayed / mis-addressed variants of its answer
}

pub struct VNode {
    pub id: Id,
    pub addr: SocketAddr,
    pub mode: Mode,
    pub peers: HashMap<Id, Vec<SocketAddr>>, // what it already stores per info-hash
    pub secret: u8,
    pub names_extra: Vec<(Id, SocketAddr)>, // extra nodes it names in every node list (hostile / chain scenarios)
    pub truthful: bool,                     // answers with the truly closest nodes of the universe
}

/// A universe of virtual DHT nodes answering like well-behaved (or scripted-faulty) remote nodes.
pub struct OracleNet {
    pub nodes: Vec<VNode>,
    pub by_addr: HashMap<SocketAddr, usize>,
    pub announces: Vec<(usize, Id, SocketAddr, bool)>, // (node index, info hash, contact, token ok)
    pub answer_delay_max: u64,
    pub last_tids: Vec<Vec<u8>>,
    /// the network forgets its dead: a node that fell silent (SilentFrom) is no longer named by the others this many ms later
    pub forget_dead_after: Option<i64>,
}

impl OracleNet {
    pub fn new(nodes: Vec<VNode>) -> Self {
        let by_addr = nodes.iter().enumerate().map(|(i, n)| (n.addr, i)).collect();
        OracleNet { nodes, by_addr, announces: vec![], answer_delay_max: 0, last_tids: vec![], forget_dead_after: None }
    }
    pub fn addrs(&self) -> Vec<SocketAddr> {
        self.nodes.iter().map(|n| n.addr).collect()
    }
    pub fn closest(&self, target: &Id, v4: bool, k: usize) -> Vec<(Id, SocketAddr)> {
        let mut v: Vec<_> = self.nodes.iter().filter(|n| n.addr.is_ipv4() == v4).map(|n| (xor(&n.id, target), n.id, n.addr)).collect();
        v.sort();
        v.into_iter().take(k).map(|(_, i, a)| (i, a)).collect()
    }
    pub fn closest_at(&self, target: &Id, v4: bool, k: usize, now: i64) -> Vec<(Id, SocketAddr)> {
        let Some(forget) = self.forget_dead_after else { return self.closest(target, v4, k) };
        let mut v: Vec<_> = self.nodes.iter().filter(|n| n.addr.is_ipv4() == v4)
            .filter(|n| !matches!(n.mode, Mode::SilentFrom(t0) if now >= t0 + forget))
            .map(|n| (xor(&n.id, target), n.id, n.addr)).collect();
        v.sort();
        v.into_iter().take(k).map(|(_, i, a)| (i, a)).collect()
    }
    pub fn token_for(&self, idx: usize, ip: std::net::IpAddr) -> Vec<u8> {
        let mut t = vec![b'T', self.nodes[idx].secret, (idx >> 8) as u8, idx as u8];
        match ip {
            std::net::IpAddr::V4(i) => t.extend(i.octets()),
            std::net::IpAddr::V6(i) => t.extend(&i.octets()[8..]),
        }
        t
    }
    pub fn universe_json(&self) -> Value {
        Value::Array(self.nodes.iter().map(|n| json!({"id": bytes_json(&n.id), "addr": addr_json(&n.addr), "mode": format!("{:?}", n.mode)})).collect())
    }
}

impl Scripted for Arc<Mutex<OracleNet>> {
    fn on_datagram(&mut self, now: i64, d: &Dgram, rng: &mut StdRng) -> Vec<(u64, SocketAddr, SocketAddr, Vec<u8>)> {
        let mut me = self.lock().unwrap();
        let Some(&idx) = me.by_addr.get(&d.dst) else { return vec![] };
        let mode = me.nodes[idx].mode;
        let Some((msg, _)) = benc::parse(&d.bytes) else { return vec![] };
        if msg.get("y").and_then(|y| y.bytes()) != Some(b"q") {
            return vec![];
        }
        let t = msg.get("t").and_then(|t| t.bytes()).unwrap_or(b"").to_vec();
        let q = msg.get("q").and_then(|q| q.bytes()).unwrap_or(b"").to_vec();
        let Some(a) = msg.get("a") else { return vec![] };
        let delay = match mode {
            Mode::Silent => return vec![],
            Mode::SilentFrom(t0) if now >= t0 => return vec![],
            Mode::DelayMs(d) => d,
            _ => if me.answer_delay_max > 0 { rng.gen_range(0..me.answer_delay_max) } else { 0 },
        };
        let my_id = me.nodes[idx].id;
        let echo = mode == Mode::EchoQuery;
        let reply = |bytes: Vec<u8>| {
            if echo {
                vec![(delay, d.dst, d.src, benc::q_ping(&t, &my_id)), (delay + 20, d.dst, d.src, bytes)]
            } else {
                vec![(delay, d.dst, d.src, bytes)]
            }
        };
        if mode == Mode::ErrorReply {
            return reply(benc::e_error(&t, 201, "scripted error"));
        }
        if mode == Mode::Garbage {
            return reply(b"d1:t2:xx1:y1:r1:rd2:id3:abcee".to_vec());
        }
        let v4 = d.src.is_ipv4();
        let node_lists = |me: &OracleNet, target: &Id| {
            let mut l = if me.nodes[idx].truthful { me.closest_at(target, v4, 8, now) } else { vec![] };
            l.extend(me.nodes[idx].names_extra.iter().copied());
            if v4 { (l, vec![]) } else { (vec![], l) }
        };
        match q.as_slice() {
            b"ping" => reply(benc::r_generic(&t, &my_id, None, &[], &[], &[])),
            b"find_node" => {
                let mut target = [0u8; 20];
                if let Some(x) = a.get("target").and_then(|x| x.bytes()).filter(|x| x.len() == 20) {
                    target.copy_from_slice(x);
                }
                let (n4, n6) = node_lists(&me, &target);
                reply(benc::r_generic(&t, &my_id, None, &[], &n4, &n6))
            }
            b"get_peers" => {
                let mut ih = [0u8; 20];
                if let Some(x) = a.get("info_hash").and_then(|x| x.bytes()).filter(|x| x.len() == 20) {
                    ih.copy_from_slice(x);
                }
                let (n4, n6) = node_lists(&me, &ih);
                let token = me.token_for(idx, d.src.ip());
                let values: Vec<SocketAddr> = me.nodes[idx].peers.get(&ih).cloned().unwrap_or_default().into_iter().filter(|p| p.is_ipv4() == v4).collect();
                // a hostile node's genuine answer also names one id twice, at two unreachable addresses, farther from the target
                // than anything else (the complement of the target)
                let n4 = if mode == Mode::Hostile && v4 {
                    let mut far = ih;
                    for b in far.iter_mut() { *b = !*b; }
                    let mut l = n4;
                    l.push((far, (std::net::Ipv4Addr::new(10, 250, 1, (idx % 200) as u8 + 1), 1).into()));
                    l.push((far, (std::net::Ipv4Addr::new(10, 250, 2, (idx % 200) as u8 + 1), 1).into()));
                    l
                } else { n4 };
                let mut out = reply(benc::r_generic(&t, &my_id, Some(&token), &values, &n4, &n6));
                if mode == Mode::Hostile {
                    let bogus = |n: u8| -> Vec<SocketAddr> { vec![(std::net::Ipv4Addr::new(66, 66, idx as u8, n), 6000 + n as u16).into()] };
                    let other_src: SocketAddr = (std::net::Ipv4Addr::new(10, 66, 0, (idx % 250) as u8 + 1), 6881).into();
                    let mut long_t = t.clone();
                    long_t.push(7);
                    let mut wrong_t = t.clone();
                    if let Some(l) = wrong_t.last_mut() { *l = l.wrapping_add(1 + rng.gen_range(0..200)); }
                    let short_t = t[..t.len().min(5)].to_vec();
                    let prev = me.last_tids.clone();
                    // replay of the genuine answer with other values and another token (after the first one was consumed)
                    out.push((delay + rng.gen_range(1..900), d.dst, d.src, benc::r_generic(&t, &my_id, Some(b"REPLAYED-TOKEN"), &bogus(1), &n4, &n6)));
                    // the same transaction id from a different source address (may legitimately win the race)
                    out.push((delay + rng.gen_range(0..900), other_src, d.src, benc::r_generic(&t, &my_id, Some(&token), &values, &n4, &n6)));
                    // transaction id one byte too long / last byte changed / truncated to the action prefix
                    out.push((delay, d.dst, d.src, benc::r_generic(&long_t, &my_id, Some(b"LONG"), &bogus(3), &[(my_id, other_src)], &[])));
                    out.push((delay, d.dst, d.src, benc::r_generic(&wrong_t, &my_id, Some(b"WRONG"), &bogus(4), &[], &[])));
                    out.push((delay, d.dst, d.src, benc::r_generic(&short_t, &my_id, Some(b"SHORT"), &bogus(5), &[], &[])));
                    // transaction ids of earlier queries (other searches, timed-out ones)
                    for (k, old) in prev.iter().rev().take(3).enumerate() {
                        out.push((delay + 10, d.dst, d.src, benc::r_generic(old, &my_id, Some(b"STALE"), &bogus(6 + k as u8), &[], &[])));
                    }
                    // node lists naming the requester itself, duplicates and unreachable nodes
                    let mut req_id = [0u8; 20];
                    if let Some(x) = a.get("id").and_then(|x| x.bytes()).filter(|x| x.len() == 20) { req_id.copy_from_slice(x); }
                    let dupes = vec![(req_id, d.src), (my_id, d.dst), (my_id, d.dst), ([0x42; 20], (std::net::Ipv4Addr::new(10, 250, 0, 1), 1).into())];
                    out.push((delay + 5, d.dst, d.src, benc::r_generic(&wrong_t, &my_id, None, &[], &dupes, &[])));
                }
                me.last_tids.push(t.clone());
                if me.last_tids.len() > 64 { me.last_tids.remove(0); }
                out
            }
            b"announce_peer" => {
                let mut ih = [0u8; 20];
                if let Some(x) = a.get("info_hash").and_then(|x| x.bytes()).filter(|x| x.len() == 20) {
                    ih.copy_from_slice(x);
                }
                let tok_ok = a.get("token").and_then(|x| x.bytes()) == Some(&me.token_for(idx, d.src.ip())[..]);
                let implied = matches!(a.get("implied_port"), Some(B::Int(i)) if *i != 0);
                let port = match a.get("port") { Some(B::Int(p)) => *p as u16, _ => 0 };
                let contact: SocketAddr = if implied { d.src } else { (d.src.ip(), port).into() };
                me.announces.push((idx, ih, contact, tok_ok));
                if tok_ok {
                    let e = me.nodes[idx].peers.entry(ih).or_default();
                    if !e.contains(&contact) {
                        e.push(contact);
                    }
                    reply(benc::r_generic(&t, &my_id, None, &[], &[], &[]))
                } else {
                    reply(benc::e_error(&t, 203, "bad token"))
                }
            }
            _ => reply(benc::e_error(&t, 204, "method unknown")),
        }
    }
}

// ------------------------------------------------------------------------------------------ real nodes

pub struct NodeCfg {
    pub addr: SocketAddr,
    pub id: Option<Id>,
    pub read_only: bool,
    pub announce_port: Option<u16>,
    pub nodes: Vec<SocketAddr>,
    pub routers: Vec<String>,
}

pub fn start_node(net: &Net, cfg: &NodeCfg) -> MainlineDht {
    let mut b = MainlineDht::builder().set_read_only(cfg.read_only);
    if let Some(id) = cfg.id {
        b = b.set_node_id(btdht::InfoHash::from(id));
    }
    if let Some(p) = cfg.announce_port {
        b = b.set_announce_port(p);
    }
    for n in &cfg.nodes {
        b = b.add_node(*n);
    }
    for r in &cfg.routers {
        b = b.add_router(r.clone());
    }
    net.log(json!({"ev":"NodeCfg","node":addr_json(&cfg.addr),"read_only":cfg.read_only,
                   "announce_port":cfg.announce_port.map(|p| p as i64).unwrap_or(-1),
                   "nodes":cfg.nodes.iter().map(addr_json).collect::<Vec<_>>(),
                   "routers":cfg.routers.iter().filter_map(|r| r.parse::<SocketAddr>().ok()).map(|a| addr_json(&a)).collect::<Vec<_>>()}));
    b.start(net.socket(cfg.addr)).expect("start")
}

/// Start a search and record everything it yields and when it closes (in a local task).
pub fn search(net: &Net, dht: &MainlineDht, node: SocketAddr, sid: u64, ih: Id, announce: bool) -> tokio::task::JoinHandle<Vec<SocketAddr>> {
    net.log(json!({"ev":"ApiSearch","node":addr_json(&node),"sid":sid,"ih":bytes_json(&ih),"ihx":hex(&ih),"announce":announce}));
    let mut stream = dht.search(btdht::InfoHash::from(ih), announce);
    let net = net.clone();
    tokio::task::spawn_local(async move {
        let mut got = vec![];
        while let Some(a) = stream.next().await {
            net.log(json!({"ev":"Yield","node":addr_json(&node),"sid":sid,"addr":addr_json(&a)}));
            got.push(a);
        }
        net.log(json!({"ev":"Closed","node":addr_json(&node),"sid":sid,"n":got.len()}));
        got
    })
}

/// bootstrapped() as an observed API call.
pub fn wait_bootstrapped(net: &Net, dht: &MainlineDht, node: SocketAddr, wid: u64) -> tokio::task::JoinHandle<bool> {
    net.log(json!({"ev":"ApiBootWait","node":addr_json(&node),"wid":wid}));
    let net = net.clone();
    let dht = dht.clone();
    tokio::task::spawn_local(async move {
        let r = dht.bootstrapped().await;
        net.log(json!({"ev":"ApiBootRet","node":addr_json(&node),"wid":wid,"ok":r}));
        r
    })
}

pub async fn api_state(net: &Net, dht: &MainlineDht, node: SocketAddr) -> bool {
    let r = tokio::time::timeout(Duration::from_secs(10), dht.get_state()).await;
    match r {
        Ok(Some(s)) => {
            net.log(json!({"ev":"ApiState","node":addr_json(&node),"alive":true,"running":s.is_running,"boot":s.bootstrapped,
                           "ng":s.good_node_count,"nq":s.questionable_node_count,"nb":s.bucket_count}));
            true
        }
        _ => {
            net.log(json!({"ev":"ApiState","node":addr_json(&node),"alive":false}));
            false
        }
    }
}

pub async fn api_contacts(net: &Net, dht: &MainlineDht, node: SocketAddr) -> Option<(HashSet<SocketAddr>, HashSet<SocketAddr>)> {
    let r = tokio::time::timeout(Duration::from_secs(10), dht.load_contacts()).await;
    match r {
        Ok(Ok((g, q))) => {
            let mut gs: Vec<_> = g.iter().collect();
            let mut qs: Vec<_> = q.iter().collect();
            gs.sort();
            qs.sort();
            net.log(json!({"ev":"ApiContacts","node":addr_json(&node),"alive":true,
                           "good":gs.iter().map(|a| addr_json(a)).collect::<Vec<_>>(),
                           "quest":qs.iter().map(|a| addr_json(a)).collect::<Vec<_>>()}));
            Some((g, q))
        }
        _ => {
            net.log(json!({"ev":"ApiContacts","node":addr_json(&node),"alive":false}));
            None
        }
    }
}

pub async fn api_local_addr(net: &Net, dht: &MainlineDht, node: SocketAddr) -> bool {
    let ok = matches!(tokio::time::timeout(Duration::from_secs(10), dht.local_addr()).await, Ok(Ok(_)));
    net.log(json!({"ev":"ApiLocalAddr","node":addr_json(&node),"alive":ok}));
    ok
}

pub async fn sleep_ms(ms: u64) {
    tokio::time::sleep(Duration::from_millis(ms)).await;
}

/// Run a scenario on a fresh single-threaded runtime with the paused clock, a LocalSet and the hook sink installed.
pub fn run_scenario<F, Fut>(out_path: &str, seed: u64, f: F) -> Res<u64>
where
    F: FnOnce(Net) -> Fut,
    Fut: std::future::Future<Output = ()>,
{
    let rt = paused_rt();
    let rec = Recorder::new(out_path)?;
    let net = Net::new(seed, rec);
    let local = tokio::task::LocalSet::new();
    let net2 = net.clone();
    local.block_on(&rt, async move {
        verif::set_epoch();
        let sink_net = net2.clone();
        verif::install_sink(move |e| sink_net.inner.lock().unwrap().rec.hook(e));
        net2.with(|n| n.rec.reset());
        let pump = tokio::task::spawn_local(net2.clone().pump());
        f(net2.clone()).await;
        pump.abort();
        verif::remove_sink();
    });
    drop(local);
    drop(rt);
    let lines = net.with(|n| n.rec.finish());
    Ok(lines)
}

pub fn rand_id(rng: &mut StdRng) -> Id {
    let mut id = [0u8; 20];
    rng.fill(&mut id);
    id
}

pub fn v4(a: u8, b: u8, c: u8, d: u8, port: u16) -> SocketAddr {
    (std::net::Ipv4Addr::new(a, b, c, d), port).into()
}

pub fn v6(n: u16, port: u16) -> SocketAddr {
    (std::net::Ipv6Addr::new(0x2001, 0xdb8, 0, 0, 0, 0, 1, n), port).into()
}
