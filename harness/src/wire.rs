//! C13 / C14: the real KRPC codec against the Wire specification.
//!
//! `vh wire`   : seeded random messages over the whole field space -> real encode / decode, canonical and varied
//!               encodings (permuted keys, unknown keys at every level, ill-formed variants) -> trace for WireTrace.tla
//! `vh decode` : decode worker for C14 -- reads hex datagrams on stdin, decodes each with the real decoder on a thread
//!               with a 2 MiB stack under a counting allocator, prints one JSON line per datagram.  The supervisor
//!               (`vh flood`) generates the structure-aware mutation corpus and restarts the worker when it dies.

use crate::benc::{self, B};
use crate::util::*;
use btdht::message::*;
use btdht::verif;
use rand::{rngs::StdRng, seq::SliceRandom, Rng, SeedableRng};
use serde_json::{json, Value};
use std::net::{IpAddr, Ipv4Addr, Ipv6Addr, SocketAddr};

fn ip_bytes(a: &SocketAddr) -> Vec<u8> {
    match a.ip() {
        IpAddr::V4(i) => i.octets().to_vec(),
        IpAddr::V6(i) => i.octets().to_vec(),
    }
}

fn want_str(w: &Option<Want>) -> &'static str {
    match w {
        None => "none",
        Some(Want::V4) => "n4",
        Some(Want::V6) => "n6",
        Some(Want::Both) => "both",
    }
}

/// The abstract form of a message (the record of spec/Wire.tla).
pub fn abs(m: &Message) -> Value {
    let mut o = json!({"t": bytes_json(&m.transaction_id), "id": [], "target": [], "info_hash": [], "want": "none", "port": 0,
                       "token": [], "hastoken": false, "values": [], "nodes": [], "nodes6": [], "code": 0, "msg": []});
    let nodes = |v: &Vec<_>| -> Value {
        Value::Array(v.iter().map(|h| { let (id, a) = verif::handle_parts(h); json!({"id": bytes_json(&id), "ip": bytes_json(&ip_bytes(&a)), "port": a.port()}) }).collect())
    };
    match &m.body {
        MessageBody::Request(Request::Ping(p)) => {
            o["kind"] = json!("ping");
            o["id"] = bytes_json(p.id.as_ref());
        }
        MessageBody::Request(Request::FindNode(f)) => {
            o["kind"] = json!("find_node");
            o["id"] = bytes_json(f.id.as_ref());
            o["target"] = bytes_json(f.target.as_ref());
            o["want"] = json!(want_str(&f.want));
        }
        MessageBody::Request(Request::GetPeers(g)) => {
            o["kind"] = json!("get_peers");
            o["id"] = bytes_json(g.id.as_ref());
            o["info_hash"] = bytes_json(g.info_hash.as_ref());
            o["want"] = json!(want_str(&g.want));
        }
        MessageBody::Request(Request::AnnouncePeer(a)) => {
            o["kind"] = json!("announce_peer");
            o["id"] = bytes_json(a.id.as_ref());
            o["info_hash"] = bytes_json(a.info_hash.as_ref());
            o["port"] = json!(a.port.map(|p| p as i64).unwrap_or(-1));
            o["token"] = bytes_json(&a.token);
        }
        MessageBody::Response(r) => {
            o["kind"] = json!("resp");
            o["id"] = bytes_json(r.id.as_ref());
            o["hastoken"] = json!(r.token.is_some());
            o["token"] = bytes_json(r.token.as_deref().unwrap_or(&[]));
            o["values"] = Value::Array(r.values.iter().map(|a| json!({"ip": bytes_json(&ip_bytes(a)), "port": a.port()})).collect());
            o["nodes"] = nodes(&r.nodes_v4);
            o["nodes6"] = nodes(&r.nodes_v6);
        }
        MessageBody::Error(e) => {
            o["kind"] = json!("err");
            o["code"] = json!(e.code);
            o["msg"] = bytes_json(e.message.as_bytes());
        }
    }
    o
}

fn rid(rng: &mut StdRng) -> btdht::InfoHash {
    let mut b = [0u8; 20];
    match rng.gen_range(0..6) {
        0 => {}
        1 => b = [0xff; 20],
        _ => rng.fill(&mut b),
    }
    btdht::InfoHash::from(b)
}

fn rtid(rng: &mut StdRng) -> Vec<u8> {
    let len = match rng.gen_range(0..8) { 0 => 0, 1 => 1, 2 => 2, 3 => 8, 4 => 32, _ => rng.gen_range(0..=32) };
    (0..len).map(|_| match rng.gen_range(0..8) { 0 => 0u8, 1 => 0xff, 2 => b':', 3 => b'e', 4 => b'd', 5 => b'i', _ => rng.gen() }).collect()
}

fn raddr(rng: &mut StdRng, v6: bool) -> SocketAddr {
    let port = match rng.gen_range(0..6) { 0 => 0u16, 1 => 1, 2 => 65535, 3 => 256, _ => rng.gen() };
    if v6 {
        let mut o = [0u8; 16];
        rng.fill(&mut o);
        (Ipv6Addr::from(o), port).into()
    } else {
        (Ipv4Addr::from(rng.gen::<u32>()), port).into()
    }
}

fn rwant(rng: &mut StdRng) -> Option<Want> {
    match rng.gen_range(0..4) { 0 => None, 1 => Some(Want::V4), 2 => Some(Want::V6), _ => Some(Want::Both) }
}

fn rtext(rng: &mut StdRng) -> String {
    let n = rng.gen_range(0..24);
    (0..n).map(|_| match rng.gen_range(0..5) { 0 => 'é', 1 => '漢', 2 => ' ', _ => rng.gen_range(b'!'..b'~') as char }).collect()
}

pub fn random_message(rng: &mut StdRng) -> Message {
    let t = rtid(rng);
    let body = match rng.gen_range(0..9) {
        0 => MessageBody::Request(Request::Ping(PingRequest { id: rid(rng) })),
        1 => MessageBody::Request(Request::FindNode(FindNodeRequest { id: rid(rng), target: rid(rng), want: rwant(rng) })),
        2 => MessageBody::Request(Request::GetPeers(GetPeersRequest { id: rid(rng), info_hash: rid(rng), want: rwant(rng) })),
        3 | 4 => {
            let tl = match rng.gen_range(0..5) { 0 => 0, 1 => 1, 2 => 20, _ => rng.gen_range(0..64) };
            let port = match rng.gen_range(0..5) { 0 => None, 1 => Some(0), 2 => Some(1), 3 => Some(65535), _ => Some(rng.gen()) };
            MessageBody::Request(Request::AnnouncePeer(AnnouncePeerRequest { id: rid(rng), info_hash: rid(rng), port, token: (0..tl).map(|_| rng.gen()).collect() }))
        }
        5 | 6 | 7 => {
            let nv = match rng.gen_range(0..4) { 0 => 0, 1 => 1, _ => rng.gen_range(0..40) };
            let n4 = match rng.gen_range(0..4) { 0 => 0, 1 => 8, _ => rng.gen_range(0..50) };
            let n6 = match rng.gen_range(0..4) { 0 | 1 => 0, 2 => 8, _ => rng.gen_range(0..30) };
            let values = (0..nv).map(|_| { let v6 = rng.gen_bool(0.3); raddr(rng, v6) }).collect();
            let nodes_v4 = (0..n4).map(|_| verif::handle(rid(rng).into(), raddr(rng, false))).collect();
            let nodes_v6 = (0..n6).map(|_| verif::handle(rid(rng).into(), raddr(rng, true))).collect();
            let token = match rng.gen_range(0..4) { 0 => None, 1 => Some(vec![]), 2 => Some((0..20).map(|_| rng.gen()).collect()), _ => Some((0..rng.gen_range(1..40)).map(|_| rng.gen()).collect()) };
            MessageBody::Response(Response { id: rid(rng), values, nodes_v4, nodes_v6, token })
        }
        _ => MessageBody::Error(Error { code: match rng.gen_range(0..4) { 0 => 0, 1 => 255, 2 => 201, _ => rng.gen() }, message: rtext(rng) }),
    };
    Message { transaction_id: t, body }
}

fn shuffle_tree(b: &B, rng: &mut StdRng) -> B {
    match b {
        B::Dict(d) => {
            let mut d: Vec<_> = d.iter().map(|(k, v)| (k.clone(), shuffle_tree(v, rng))).collect();
            d.shuffle(rng);
            B::Dict(d)
        }
        B::List(l) => B::List(l.iter().map(|x| shuffle_tree(x, rng)).collect()),
        x => x.clone(),
    }
}

fn rand_value(rng: &mut StdRng, depth: u32) -> B {
    match rng.gen_range(0..if depth >= 3 { 2 } else { 4 }) {
        0 => B::Int(match rng.gen_range(0..4) { 0 => 0, 1 => -1, 2 => i64::MAX, _ => rng.gen_range(-1000..1000) }),
        1 => B::Str((0..rng.gen_range(0..12)).map(|_| rng.gen()).collect()),
        2 => B::List((0..rng.gen_range(0..3)).map(|_| rand_value(rng, depth + 1)).collect()),
        _ => B::Dict((0..rng.gen_range(0..3)).map(|i| (format!("k{i}").into_bytes(), rand_value(rng, depth + 1))).collect()),
    }
}

const UNKNOWN: [&str; 7] = ["v", "ip", "ro", "noseed", "scrape", "name", "zz9"];

/// insert keys unknown to BEP5/32 at the top level and inside the a / r dictionaries (keeping canonical order or not)
fn add_unknown(b: &B, rng: &mut StdRng, sorted: bool) -> B {
    let B::Dict(top) = b else { return b.clone() };
    let mut top: Vec<(Vec<u8>, B)> = top
        .iter()
        .map(|(k, v)| {
            let v = if (k == b"a" || k == b"r") && matches!(v, B::Dict(_)) {
                let B::Dict(inner) = v else { unreachable!() };
                let mut inner = inner.clone();
                for _ in 0..rng.gen_range(1..3) {
                    let key = UNKNOWN[rng.gen_range(0..UNKNOWN.len())].as_bytes().to_vec();
                    if !inner.iter().any(|(k2, _)| *k2 == key) {
                        inner.push((key, rand_value(rng, 0)));
                    }
                }
                if sorted { inner.sort_by(|a, b| a.0.cmp(&b.0)); } else { inner.shuffle(rng); }
                B::Dict(inner)
            } else {
                v.clone()
            };
            (k.clone(), v)
        })
        .collect();
    for _ in 0..rng.gen_range(1..3) {
        let key = UNKNOWN[rng.gen_range(0..UNKNOWN.len())].as_bytes().to_vec();
        if !top.iter().any(|(k2, _)| *k2 == key) {
            top.push((key, rand_value(rng, 0)));
        }
    }
    if sorted { top.sort_by(|a, b| a.0.cmp(&b.0)); } else { top.shuffle(rng); }
    B::Dict(top)
}

fn set_in(b: &B, path: &[&str], f: &dyn Fn(&B) -> Option<B>) -> Option<B> {
    let B::Dict(d) = b else { return None };
    let mut out = vec![];
    let mut hit = false;
    for (k, v) in d {
        if k == path[0].as_bytes() {
            hit = true;
            if path.len() == 1 {
                match f(v) {
                    Some(nv) => out.push((k.clone(), nv)),
                    None => {} // delete the key
                }
            } else {
                out.push((k.clone(), set_in(v, &path[1..], f)?));
            }
        } else {
            out.push((k.clone(), v.clone()));
        }
    }
    if hit { Some(B::Dict(out)) } else { None }
}

/// ill-formed variants that C13 says must be rejected
fn illformed(tree: &B, m: &Message, rng: &mut StdRng) -> Vec<(&'static str, B)> {
    let mut v = vec![];
    let chop = |b: &B| b.bytes().map(|s| B::Str(s[..s.len().saturating_sub(1)].to_vec()));
    let grow = |b: &B| b.bytes().map(|s| { let mut s = s.to_vec(); s.push(7); B::Str(s) });
    match &m.body {
        MessageBody::Request(r) => {
            if let Some(t) = set_in(tree, &["a", "id"], &chop) { v.push(("id-19-bytes", t)); }
            if let Some(t) = set_in(tree, &["a", "id"], &grow) { v.push(("id-21-bytes", t)); }
            match r {
                Request::FindNode(_) => {
                    if let Some(t) = set_in(tree, &["a", "target"], &|_| None) { v.push(("find_node-without-target", t)); }
                    if let Some(t) = set_in(tree, &["q"], &|_| Some(B::s("get_peers"))) { v.push(("get_peers-with-find_node-arguments", t)); }
                    if let Some(t) = set_in(tree, &["a", "target"], &grow) { v.push(("target-21-bytes", t)); }
                }
                Request::GetPeers(_) => {
                    if let Some(t) = set_in(tree, &["a", "info_hash"], &|_| None) { v.push(("get_peers-without-info_hash", t)); }
                    if let Some(t) = set_in(tree, &["q"], &|_| Some(B::s("find_node"))) { v.push(("find_node-with-get_peers-arguments", t)); }
                    if let Some(t) = set_in(tree, &["q"], &|_| Some(B::s("announce_peer"))) { v.push(("announce_peer-with-get_peers-arguments", t)); }
                }
                Request::AnnouncePeer(_) => {
                    if let Some(t) = set_in(tree, &["a", "token"], &|_| None) { v.push(("announce_peer-without-token", t)); }
                    if let Some(t) = set_in(tree, &["a", "info_hash"], &chop) { v.push(("info_hash-19-bytes", t)); }
                }
                Request::Ping(_) => {
                    if let Some(t) = set_in(tree, &["q"], &|_| Some(B::s("find_node"))) { v.push(("find_node-with-ping-arguments", t)); }
                }
            }
        }
        MessageBody::Response(r) => {
            if let Some(t) = set_in(tree, &["r", "id"], &chop) { v.push(("id-19-bytes", t)); }
            if !r.nodes_v4.is_empty() {
                if let Some(t) = set_in(tree, &["r", "nodes"], &chop) { v.push(("nodes-length-not-multiple-of-26", t)); }
                if let Some(t) = set_in(tree, &["r", "nodes"], &grow) { v.push(("nodes-length-not-multiple-of-26", t)); }
            }
            if !r.nodes_v6.is_empty() {
                if let Some(t) = set_in(tree, &["r", "nodes6"], &chop) { v.push(("nodes6-length-not-multiple-of-38", t)); }
                if let Some(t) = set_in(tree, &["r", "nodes6"], &grow) { v.push(("nodes6-length-not-multiple-of-38", t)); }
            }
        }
        MessageBody::Error(_) => {}
    }
    let _ = rng;
    v
}

pub fn wire(o: &Opts) -> Res<()> {
    let mut out = TraceOut::create(o.req("out")?)?;
    let n = o.num("n", 500);
    let mut rng = StdRng::seed_from_u64(o.num("seed", 1));
    out.put(json!({"ev":"Reset","t":0}));
    for _ in 0..n {
        let m = random_message(&mut rng);
        let a = abs(&m);
        let bytes = match m.encode() {
            Ok(b) => b,
            Err(e) => {
                out.put(json!({"ev":"Enc","m":a,"bytes":[],"ok":false,"err":format!("{e}")}));
                continue;
            }
        };
        out.put(json!({"ev":"Enc","m":a,"bytes":bytes_json(&bytes),"ok":true}));
        let mut dec = |variant: &str, data: &[u8], must_accept: bool, out: &mut TraceOut| {
            let r = Message::decode(data);
            match r {
                Ok(d) => out.put(json!({"ev":"Dec","variant":variant,"must":if must_accept {"accept"} else {"reject"},"ok":true,"m":abs(&d),"expect":a,"len":data.len(),"bytes":bytes_json(data)})),
                Err(_) => out.put(json!({"ev":"Dec","variant":variant,"must":if must_accept {"accept"} else {"reject"},"ok":false,"m":a,"expect":a,"len":data.len(),"bytes":bytes_json(data)})),
            }
        };
        dec("canonical", &bytes, true, &mut out);
        if let Some((tree, _)) = benc::parse(&bytes) {
            dec("permuted", &shuffle_tree(&tree, &mut rng).to_vec(), true, &mut out);
            dec("unknown-keys-sorted", &add_unknown(&tree, &mut rng, true).to_vec(), true, &mut out);
            dec("unknown-keys-permuted", &add_unknown(&shuffle_tree(&tree, &mut rng), &mut rng, false).to_vec(), true, &mut out);
            for (name, t) in illformed(&tree, &m, &mut rng) {
                dec(name, &t.to_vec(), false, &mut out);
            }
        }
    }
    out.put(json!({"ev":"End"}));
    let lines = out.finish();
    eprintln!("vh wire: {} messages, {} trace lines", n, lines);
    Ok(())
}

// ------------------------------------------------------------------------------------------------
// spec -> impl: messages enumerated by TLC (mc/MC_Wire.tla)

fn jbytes(v: &Value) -> Vec<u8> {
    v.as_array().map(|a| a.iter().map(|x| x.as_u64().unwrap_or(0) as u8).collect()).unwrap_or_default()
}
fn jid(v: &Value) -> btdht::InfoHash {
    let b = jbytes(v);
    let mut id = [0u8; 20];
    for (i, x) in b.iter().take(20).enumerate() {
        id[i] = *x;
    }
    btdht::InfoHash::from(id)
}
fn jaddr(v: &Value) -> SocketAddr {
    let ip = jbytes(&v["ip"]);
    let port = v["port"].as_u64().unwrap_or(0) as u16;
    if ip.len() == 4 {
        (Ipv4Addr::new(ip[0], ip[1], ip[2], ip[3]), port).into()
    } else {
        let mut o = [0u8; 16];
        for (i, x) in ip.iter().take(16).enumerate() {
            o[i] = *x;
        }
        (Ipv6Addr::from(o), port).into()
    }
}
fn jwant(v: &Value) -> Option<Want> {
    match v.as_str() { Some("n4") => Some(Want::V4), Some("n6") => Some(Want::V6), Some("both") => Some(Want::Both), _ => None }
}

/// Build the real message from the abstract record of Wire.tla.
pub fn from_abs(a: &Value) -> Message {
    let t = jbytes(&a["t"]);
    let body = match a["kind"].as_str().unwrap_or("") {
        "ping" => MessageBody::Request(Request::Ping(PingRequest { id: jid(&a["id"]) })),
        "find_node" => MessageBody::Request(Request::FindNode(FindNodeRequest { id: jid(&a["id"]), target: jid(&a["target"]), want: jwant(&a["want"]) })),
        "get_peers" => MessageBody::Request(Request::GetPeers(GetPeersRequest { id: jid(&a["id"]), info_hash: jid(&a["info_hash"]), want: jwant(&a["want"]) })),
        "announce_peer" => {
            let p = a["port"].as_i64().unwrap_or(0);
            MessageBody::Request(Request::AnnouncePeer(AnnouncePeerRequest { id: jid(&a["id"]), info_hash: jid(&a["info_hash"]),
                port: if p < 0 { None } else { Some(p as u16) }, token: jbytes(&a["token"]) }))
        }
        "resp" => MessageBody::Response(Response {
            id: jid(&a["id"]),
            values: a["values"].as_array().map(|v| v.iter().map(jaddr).collect()).unwrap_or_default(),
            nodes_v4: a["nodes"].as_array().map(|v| v.iter().map(|n| verif::handle(jid(&n["id"]).into(), jaddr(n))).collect()).unwrap_or_default(),
            nodes_v6: a["nodes6"].as_array().map(|v| v.iter().map(|n| verif::handle(jid(&n["id"]).into(), jaddr(n))).collect()).unwrap_or_default(),
            token: if a["hastoken"].as_bool().unwrap_or(false) { Some(jbytes(&a["token"])) } else { None },
        }),
        _ => MessageBody::Error(Error { code: a["code"].as_u64().unwrap_or(0) as u8, message: String::from_utf8_lossy(&jbytes(&a["msg"])).to_string() }),
    };
    Message { transaction_id: t, body }
}

pub fn wire_replay(o: &Opts) -> Res<()> {
    let msgs = read_lines(o.req("in")?)?;
    let mut out = TraceOut::create(o.req("out")?)?;
    let mut rng = StdRng::seed_from_u64(o.num("seed", 1));
    out.put(json!({"ev":"Reset","t":0}));
    for a0 in &msgs {
        let m = from_abs(a0);
        let a = abs(&m);
        match m.encode() {
            Ok(bytes) => {
                out.put(json!({"ev":"Enc","m":a0,"bytes":bytes_json(&bytes),"ok":true}));
                let mut dec = |variant: &str, data: &[u8], out: &mut TraceOut| match Message::decode(data) {
                    Ok(d) => out.put(json!({"ev":"Dec","variant":variant,"must":"accept","ok":true,"m":abs(&d),"expect":a,"len":data.len(),"bytes":bytes_json(data)})),
                    Err(_) => out.put(json!({"ev":"Dec","variant":variant,"must":"accept","ok":false,"m":a,"expect":a,"len":data.len(),"bytes":bytes_json(data)})),
                };
                dec("canonical", &bytes, &mut out);
                if let Some((tree, _)) = benc::parse(&bytes) {
                    dec("permuted", &shuffle_tree(&tree, &mut rng).to_vec(), &mut out);
                    dec("unknown-keys-permuted", &add_unknown(&shuffle_tree(&tree, &mut rng), &mut rng, false).to_vec(), &mut out);
                }
            }
            Err(e) => out.put(json!({"ev":"Enc","m":a0,"bytes":[],"ok":false,"err":format!("{e}")})),
        }
    }
    out.put(json!({"ev":"End"}));
    let lines = out.finish();
    eprintln!("vh wire-replay: {} messages, {} trace lines", msgs.len(), lines);
    Ok(())
}

// ------------------------------------------------------------------------------------------------
// C14: decode worker and mutation corpus

pub struct Counting;
pub static CUR: std::sync::atomic::AtomicUsize = std::sync::atomic::AtomicUsize::new(0);
pub static PEAK: std::sync::atomic::AtomicUsize = std::sync::atomic::AtomicUsize::new(0);
pub static BIGGEST: std::sync::atomic::AtomicUsize = std::sync::atomic::AtomicUsize::new(0);
unsafe impl std::alloc::GlobalAlloc for Counting {
    unsafe fn alloc(&self, l: std::alloc::Layout) -> *mut u8 {
        use std::sync::atomic::Ordering::Relaxed;
        BIGGEST.fetch_max(l.size(), Relaxed);
        let c = CUR.fetch_add(l.size(), Relaxed) + l.size();
        PEAK.fetch_max(c, Relaxed);
        std::alloc::System.alloc(l)
    }
    unsafe fn dealloc(&self, p: *mut u8, l: std::alloc::Layout) {
        CUR.fetch_sub(l.size(), std::sync::atomic::Ordering::Relaxed);
        std::alloc::System.dealloc(p, l)
    }
}

fn unhex(s: &str) -> Vec<u8> {
    (0..s.len() / 2).filter_map(|i| u8::from_str_radix(&s[2 * i..2 * i + 2], 16).ok()).collect()
}

/// Reads one hex datagram per line on stdin; for each prints {"i":n,"ok":bool,"big":largest single allocation request,
/// "peak":peak extra bytes}.  Decoding runs on a thread with a 2 MiB stack (tokio's worker default).  A panic is
/// caught and reported ("panic":true); an abort / stack overflow kills the process -- the supervisor sees it.
pub fn decode_worker(_o: &Opts) -> Res<()> {
    use std::io::BufRead;
    use std::sync::atomic::Ordering::Relaxed;
    let stdin = std::io::stdin();
    let h = std::thread::Builder::new().stack_size(2 * 1024 * 1024).spawn(move || {
        for (i, line) in stdin.lock().lines().enumerate() {
            let Ok(line) = line else { break };
            let data = unhex(line.trim());
            let base = CUR.load(Relaxed);
            PEAK.store(base, Relaxed);
            BIGGEST.store(0, Relaxed);
            let r = std::panic::catch_unwind(|| Message::decode(&data).is_ok());
            let peak = PEAK.load(Relaxed).saturating_sub(base);
            let big = BIGGEST.load(Relaxed);
            match r {
                Ok(ok) => println!("{}", json!({"i": i, "ok": ok, "big": big, "peak": peak, "len": data.len()})),
                Err(_) => println!("{}", json!({"i": i, "panic": true, "big": big, "peak": peak, "len": data.len()})),
            }
        }
    })?;
    h.join().map_err(|_| "worker thread died")?;
    Ok(())
}

/// Structure-aware mutation corpus (the operators of DESIGN §3.2 applied to seed messages): length prefixes of every
/// magnitude, integers at the limits, nesting, truncation at every offset, wrong types, non-UTF-8 text.
pub fn corpus(o: &Opts) -> Res<()> {
    use std::io::Write;
    let mut rng = StdRng::seed_from_u64(o.num("seed", 1));
    let mut w = std::io::BufWriter::new(std::fs::File::create(o.req("out")?)?);
    let nrand = o.num("n", 2000);
    let mut put = |d: &[u8]| {
        let d = if d.len() > 1500 { &d[..1500] } else { d };
        writeln!(w, "{}", hex(d)).unwrap();
    };
    // seeds: one message per shape
    let mut seeds: Vec<Vec<u8>> = vec![];
    let mut srng = StdRng::seed_from_u64(7);
    while seeds.len() < 12 {
        let m = random_message(&mut srng);
        if let Ok(b) = m.encode() {
            if b.len() < 400 {
                seeds.push(b);
            }
        }
    }
    let mags: Vec<String> = ["0", "1", "19", "21", "1499", "1500", "1501", "65535", "65536", "2147483647", "2147483648", "4294967295",
        "4294967296", "99999999999", "9223372036854775807", "9223372036854775808", "18446744073709551615", "18446744073709551616",
        "340282366920938463463374607431768211456", "00000000000000000000000000000001", "-1", "1e3", ""].iter().map(|s| s.to_string()).collect();
    let ints = ["-1", "0", "255", "256", "65535", "65536", "-9223372036854775808", "9223372036854775807", "9223372036854775808",
                "18446744073709551616", "-0", "", "1x", "--1", "+1", "0x10", "1.5"];
    for s in &seeds {
        put(s);
        // truncation at every offset
        for off in 0..s.len() {
            put(&s[..off]);
        }
        // every length prefix replaced by every magnitude; every integer by every limit
        let mut i = 0;
        while i < s.len() {
            if s[i].is_ascii_digit() && (i == 0 || !s[i - 1].is_ascii_digit()) {
                let mut j = i;
                while j < s.len() && s[j].is_ascii_digit() { j += 1; }
                if j < s.len() && s[j] == b':' {
                    for m in &mags {
                        let mut d = s[..i].to_vec();
                        d.extend(m.as_bytes());
                        d.extend(&s[j..]);
                        put(&d);
                    }
                    let n: usize = std::str::from_utf8(&s[i..j]).unwrap_or("0").parse().unwrap_or(0);
                    i = j + 1 + n;
                    continue;
                }
            }
            if s[i] == b'i' {
                if let Some(e) = s[i..].iter().position(|&c| c == b'e') {
                    for v in ints {
                        let mut d = s[..i + 1].to_vec();
                        d.extend(v.as_bytes());
                        d.extend(&s[i + e..]);
                        put(&d);
                    }
                }
            }
            i += 1;
        }
        // wrong types in every position: replace each value of the tree by values of other types
        if let Some((tree, _)) = benc::parse(s) {
            fn positions(b: &B, path: &mut Vec<usize>, out: &mut Vec<Vec<usize>>) {
                out.push(path.clone());
                match b {
                    B::List(l) => for (i, x) in l.iter().enumerate() { path.push(i); positions(x, path, out); path.pop(); },
                    B::Dict(d) => for (i, (_, x)) in d.iter().enumerate() { path.push(i); positions(x, path, out); path.pop(); },
                    _ => {}
                }
            }
            fn replace(b: &B, path: &[usize], with: &B) -> B {
                if path.is_empty() { return with.clone(); }
                match b {
                    B::List(l) => B::List(l.iter().enumerate().map(|(i, x)| if i == path[0] { replace(x, &path[1..], with) } else { x.clone() }).collect()),
                    B::Dict(d) => B::Dict(d.iter().enumerate().map(|(i, (k, x))| (k.clone(), if i == path[0] { replace(x, &path[1..], with) } else { x.clone() })).collect()),
                    x => x.clone(),
                }
            }
            let mut ps = vec![];
            positions(&tree, &mut vec![], &mut ps);
            let alts = [B::Int(0), B::Int(-1), B::Str(vec![]), B::Str(vec![0xff, 0xfe, 0x80]), B::List(vec![]), B::Dict(vec![]),
                        B::List(vec![B::Int(1), B::Str(b"x".to_vec())]), B::Dict(vec![(b"id".to_vec(), B::Int(3))])];
            for p in &ps {
                for a in &alts {
                    put(&replace(&tree, p, a).to_vec());
                }
            }
        }
    }
    // nesting up to the full datagram length
    for depth in [1usize, 8, 31, 32, 33, 64, 372, 745, 1496, 1500] {
        for (open, close) in [("l", "e"), ("d1:a", "e"), ("l", ""), ("d1:a", ""), ("d1:al", "ee")] {
            let mut d = Vec::new();
            for _ in 0..depth { d.extend(open.as_bytes()); }
            for _ in 0..depth { d.extend(close.as_bytes()); }
            put(&d);
            // nested inside a valid-looking message
            let mut m = b"d1:ad2:id20:abcdefghij01234567891:x".to_vec();
            m.extend(&d);
            m.extend(b"e1:q4:ping1:t2:aa1:y1:qe");
            put(&m);
        }
    }
    // well-formed messages in which one fixed-size byte string has every length around its size: ids (20), compact node lists
    // (26 / 38 per entry), compact peers (6 / 18), tokens
    let bytes = |n: usize| -> Vec<u8> { (0..n).map(|i| (i * 7 + 3) as u8).collect() };
    for n in 0..=90usize {
        let resp = |k: &str, v: B| benc::dict(vec![("r", benc::dict(vec![("id", B::b(&bytes(20))), (k, v)])), ("t", B::b(b"aa")), ("y", B::s("r"))]).to_vec();
        put(&resp("nodes", B::b(&bytes(n))));
        put(&resp("nodes6", B::b(&bytes(n))));
        if n <= 40 {
            put(&resp("values", B::List(vec![B::b(&bytes(6)), B::b(&bytes(n))])));
            put(&resp("token", B::b(&bytes(n))));
            put(&benc::dict(vec![("r", benc::dict(vec![("id", B::b(&bytes(n)))])), ("t", B::b(b"aa")), ("y", B::s("r"))]).to_vec());
            for (q, key) in [("ping", "id"), ("find_node", "target"), ("get_peers", "info_hash"), ("announce_peer", "token")] {
                let mut a = vec![("id", B::b(&bytes(20))), ("info_hash", B::b(&bytes(20))), ("port", B::Int(1)), ("target", B::b(&bytes(20))), ("token", B::b(&bytes(20)))];
                for kv in a.iter_mut() { if kv.0 == key { kv.1 = B::b(&bytes(n)); } }
                put(&benc::dict(vec![("a", benc::dict(a)), ("q", B::s(q)), ("t", B::b(b"aa")), ("y", B::s("q"))]).to_vec());
            }
        }
    }
    put(b"d1:t99999999999:");
    put(b"d1:t1000000000:");
    // random byte flips / splices of the seeds
    for _ in 0..nrand {
        let mut d = seeds[rng.gen_range(0..seeds.len())].clone();
        for _ in 0..rng.gen_range(1..4) {
            match rng.gen_range(0..4) {
                0 => { let i = rng.gen_range(0..d.len()); d[i] = rng.gen(); }
                1 => { let i = rng.gen_range(0..d.len()); d[i] = *b"0123456789:ield".choose(&mut rng).unwrap(); }
                2 => { let o = &seeds[rng.gen_range(0..seeds.len())]; let i = rng.gen_range(0..d.len()); let j = rng.gen_range(0..o.len()); d.truncate(i); d.extend(&o[j..]); }
                _ => { let i = rng.gen_range(0..d.len()); d.insert(i, *b"0123456789:ield".choose(&mut rng).unwrap()); }
            }
        }
        put(&d);
    }
    Ok(())
}
