//! Independent bencode reader/writer and KRPC (BEP5/BEP32) projection used by the harness to build the datagrams of
//! scripted peers and to describe every datagram on the simulated wire.  Deliberately shares no code with btdht,
//! serde or the bencode library, so that a defect in the code under test cannot corrupt what is observed.

use crate::util::*;
use serde_json::{json, Value};
use std::net::{IpAddr, Ipv4Addr, Ipv6Addr, SocketAddr};

#[derive(Clone, Debug, PartialEq)]
pub enum B {
    Int(i64),
    Str(Vec<u8>),
    List(Vec<B>),
    Dict(Vec<(Vec<u8>, B)>),
}

impl B {
    pub fn s(x: &str) -> B {
        B::Str(x.as_bytes().to_vec())
    }
    pub fn b(x: &[u8]) -> B {
        B::Str(x.to_vec())
    }
    pub fn get(&self, k: &str) -> Option<&B> {
        match self {
            B::Dict(d) => d.iter().find(|(kk, _)| kk == k.as_bytes()).map(|(_, v)| v),
            _ => None,
        }
    }
    pub fn bytes(&self) -> Option<&[u8]> {
        match self {
            B::Str(s) => Some(s),
            _ => None,
        }
    }
    /// Encode; dictionary entries are written in the order given (use `dict` for canonical order).
    pub fn encode(&self, out: &mut Vec<u8>) {
        match self {
            B::Int(i) => out.extend(format!("i{i}e").as_bytes()),
            B::Str(s) => {
                out.extend(format!("{}:", s.len()).as_bytes());
                out.extend(s);
            }
            B::List(l) => {
                out.push(b'l');
                for x in l {
                    x.encode(out);
                }
                out.push(b'e');
            }
            B::Dict(d) => {
                out.push(b'd');
                for (k, v) in d {
                    B::Str(k.clone()).encode(out);
                    v.encode(out);
                }
                out.push(b'e');
            }
        }
    }
    pub fn to_vec(&self) -> Vec<u8> {
        let mut v = Vec::new();
        self.encode(&mut v);
        v
    }
}

/// Dictionary with keys sorted (canonical form).
pub fn dict(mut entries: Vec<(&str, B)>) -> B {
    entries.sort_by(|a, b| a.0.as_bytes().cmp(b.0.as_bytes()));
    B::Dict(entries.into_iter().map(|(k, v)| (k.as_bytes().to_vec(), v)).collect())
}

/// Strict-enough parser: first value only, reports the number of bytes consumed. Depth-limited, non-recursive on
/// attacker-controlled lengths (a length beyond the input is an error).
pub fn parse(input: &[u8]) -> Option<(B, usize)> {
    fn val(inp: &[u8], pos: usize, depth: usize) -> Option<(B, usize)> {
        if depth > 64 {
            return None;
        }
        match *inp.get(pos)? {
            b'i' => {
                let end = pos + 1 + inp[pos + 1..].iter().position(|&c| c == b'e')?;
                let s = std::str::from_utf8(&inp[pos + 1..end]).ok()?;
                Some((B::Int(s.parse().ok()?), end + 1))
            }
            b'0'..=b'9' => {
                let colon = pos + inp[pos..].iter().position(|&c| c == b':')?;
                let n: usize = std::str::from_utf8(&inp[pos..colon]).ok()?.parse().ok()?;
                let start = colon + 1;
                if n > inp.len().checked_sub(start)? {
                    return None;
                }
                Some((B::Str(inp[start..start + n].to_vec()), start + n))
            }
            b'l' => {
                let mut p = pos + 1;
                let mut items = vec![];
                while *inp.get(p)? != b'e' {
                    let (v, np) = val(inp, p, depth + 1)?;
                    items.push(v);
                    p = np;
                }
                Some((B::List(items), p + 1))
            }
            b'd' => {
                let mut p = pos + 1;
                let mut items = vec![];
                while *inp.get(p)? != b'e' {
                    let (k, np) = val(inp, p, depth + 1)?;
                    let k = match k {
                        B::Str(s) => s,
                        _ => return None,
                    };
                    let (v, np2) = val(inp, np, depth + 1)?;
                    items.push((k, v));
                    p = np2;
                }
                Some((B::Dict(items), p + 1))
            }
            _ => None,
        }
    }
    val(input, 0, 0)
}

pub fn compact_addr(a: &SocketAddr) -> Vec<u8> {
    let mut v = match a.ip() {
        IpAddr::V4(i) => i.octets().to_vec(),
        IpAddr::V6(i) => i.octets().to_vec(),
    };
    v.extend(a.port().to_be_bytes());
    v
}

pub fn addr_from_compact(b: &[u8]) -> Option<SocketAddr> {
    match b.len() {
        6 => Some((Ipv4Addr::new(b[0], b[1], b[2], b[3]), u16::from_be_bytes([b[4], b[5]])).into()),
        18 => {
            let mut o = [0u8; 16];
            o.copy_from_slice(&b[..16]);
            Some((Ipv6Addr::from(o), u16::from_be_bytes([b[16], b[17]])).into())
        }
        _ => None,
    }
}

pub fn compact_nodes(nodes: &[([u8; 20], SocketAddr)]) -> Vec<u8> {
    let mut v = vec![];
    for (id, a) in nodes {
        v.extend(id);
        v.extend(compact_addr(a));
    }
    v
}

// ---------------------------------------------------------------------------------------- KRPC builders

pub fn q_ping(t: &[u8], id: &[u8]) -> Vec<u8> {
    dict(vec![("t", B::b(t)), ("y", B::s("q")), ("q", B::s("ping")), ("a", dict(vec![("id", B::b(id))]))]).to_vec()
}

fn want_b(want: Option<&str>) -> Option<B> {
    want.map(|w| match w {
        "n4" => B::List(vec![B::s("n4")]),
        "n6" => B::List(vec![B::s("n6")]),
        _ => B::List(vec![B::s("n4"), B::s("n6")]),
    })
}

pub fn q_find_node(t: &[u8], id: &[u8], target: &[u8], want: Option<&str>) -> Vec<u8> {
    let mut a = vec![("id", B::b(id)), ("target", B::b(target))];
    if let Some(w) = want_b(want) {
        a.push(("want", w));
    }
    dict(vec![("t", B::b(t)), ("y", B::s("q")), ("q", B::s("find_node")), ("a", dict(a))]).to_vec()
}

pub fn q_get_peers(t: &[u8], id: &[u8], ih: &[u8], want: Option<&str>) -> Vec<u8> {
    let mut a = vec![("id", B::b(id)), ("info_hash", B::b(ih))];
    if let Some(w) = want_b(want) {
        a.push(("want", w));
    }
    dict(vec![("t", B::b(t)), ("y", B::s("q")), ("q", B::s("get_peers")), ("a", dict(a))]).to_vec()
}

/// port: Some(p) explicit; None = implied_port=1 with port=0 (plus `extra_port` to send both, as many clients do)
pub fn q_announce(t: &[u8], id: &[u8], ih: &[u8], token: &[u8], port: Option<u16>, implied_with_port: Option<u16>) -> Vec<u8> {
    let mut a = vec![("id", B::b(id)), ("info_hash", B::b(ih)), ("token", B::b(token))];
    match (port, implied_with_port) {
        (Some(p), _) => a.push(("port", B::Int(p as i64))),
        (None, Some(p)) => {
            a.push(("implied_port", B::Int(1)));
            a.push(("port", B::Int(p as i64)));
        }
        (None, None) => {
            a.push(("implied_port", B::Int(1)));
            a.push(("port", B::Int(0)));
        }
    }
    dict(vec![("t", B::b(t)), ("y", B::s("q")), ("q", B::s("announce_peer")), ("a", dict(a))]).to_vec()
}

pub fn r_generic(t: &[u8], id: &[u8], token: Option<&[u8]>, values: &[SocketAddr], nodes4: &[([u8; 20], SocketAddr)],
                 nodes6: &[([u8; 20], SocketAddr)]) -> Vec<u8> {
    let mut r = vec![("id", B::b(id))];
    if let Some(tok) = token {
        r.push(("token", B::b(tok)));
    }
    if !values.is_empty() {
        r.push(("values", B::List(values.iter().map(|a| B::Str(compact_addr(a))).collect())));
    }
    if !nodes4.is_empty() {
        r.push(("nodes", B::Str(compact_nodes(nodes4))));
    }
    if !nodes6.is_empty() {
        r.push(("nodes6", B::Str(compact_nodes(nodes6))));
    }
    dict(vec![("t", B::b(t)), ("y", B::s("r")), ("r", dict(r))]).to_vec()
}

pub fn e_error(t: &[u8], code: i64, msg: &str) -> Vec<u8> {
    dict(vec![("t", B::b(t)), ("y", B::s("e")), ("e", B::List(vec![B::Int(code), B::s(msg)]))]).to_vec()
}

// ------------------------------------------------------------------------------------- KRPC projection

fn id_json(b: &[u8]) -> Value {
    bytes_json(b)
}

fn nodes_json(b: &[u8], alen: usize) -> Value {
    let step = 20 + alen;
    if b.len() % step != 0 {
        // not a whole number of entries: the message is malformed as a whole (`nodes_bad` says so), no entry is described
        return json!([]);
    }
    Value::Array(
        b.chunks(step)
            .filter_map(|c| addr_from_compact(&c[20..]).map(|a| json!({"id": id_json(&c[..20]), "addr": addr_json(&a)})))
            .collect(),
    )
}

/// Describe a datagram for the trace: length, and -- when it parses as a KRPC dictionary -- its abstract content.
/// Fields keep enough raw information (lengths) for the specification to decide well-formedness itself.
pub fn describe(bytes: &[u8]) -> Value {
    let mut o = json!({"len": bytes.len()});
    let Some((B::Dict(top), used)) = parse(bytes) else {
        o["y"] = json!("?");
        return o;
    };
    let top = B::Dict(top);
    o["trailing"] = json!(bytes.len() - used);
    let t = top.get("t").and_then(|t| t.bytes());
    o["t"] = json!(t.map(hex).unwrap_or_else(|| "-".into()));
    o["tl"] = json!(t.map(|t| t.len() as i64).unwrap_or(-1));
    o["pfx"] = json!(t.filter(|t| t.len() >= 5).map(|t| hex(&t[..5])).unwrap_or_else(|| "-".into()));
    let y = top.get("y").and_then(|y| y.bytes()).map(|y| String::from_utf8_lossy(y).to_string()).unwrap_or_else(|| "?".into());
    o["y"] = json!(y);
    let idlen = |d: &B, k: &str| d.get(k).and_then(|x| x.bytes()).map(|x| x.len() as i64).unwrap_or(-1);
    match y.as_str() {
        "q" => {
            o["q"] = json!(top.get("q").and_then(|q| q.bytes()).map(|q| String::from_utf8_lossy(q).to_string()).unwrap_or_else(|| "?".into()));
            if let Some(a) = top.get("a") {
                let mut aj = json!({"idl": idlen(a, "id"), "targetl": idlen(a, "target"), "ihl": idlen(a, "info_hash"),
                                    "tokenl": idlen(a, "token")});
                if let Some(x) = a.get("id").and_then(|x| x.bytes()) {
                    aj["id"] = id_json(x);
                }
                if let Some(x) = a.get("target").and_then(|x| x.bytes()) {
                    aj["target"] = id_json(x);
                }
                if let Some(x) = a.get("info_hash").and_then(|x| x.bytes()) {
                    aj["info_hash"] = id_json(x);
                    aj["ih"] = json!(hex(x));
                }
                if let Some(x) = a.get("token").and_then(|x| x.bytes()) {
                    aj["token"] = json!(hex(x));
                }
                aj["port"] = match a.get("port") {
                    Some(B::Int(p)) => json!(p),
                    Some(_) => json!(-2),
                    None => json!(-1),
                };
                aj["implied"] = match a.get("implied_port") {
                    Some(B::Int(p)) => json!(*p != 0),
                    Some(_) => json!(true),
                    None => json!(false),
                };
                aj["want"] = match a.get("want") {
                    Some(B::List(l)) => {
                        let has = |w: &str| l.iter().any(|x| x.bytes().map(|b| String::from_utf8_lossy(b).trim().eq_ignore_ascii_case(w)).unwrap_or(false));
                        json!(match (has("n4"), has("n6")) { (true, true) => "both", (true, false) => "n4", (false, true) => "n6", _ => "none" })
                    }
                    Some(_) => json!("bad"),
                    None => json!("none"),
                };
                o["a"] = aj;
            }
        }
        "r" => {
            if let Some(r) = top.get("r") {
                let mut rj = json!({"idl": idlen(r, "id")});
                if let Some(x) = r.get("id").and_then(|x| x.bytes()) {
                    rj["id"] = id_json(x);
                }
                rj["token"] = json!(r.get("token").and_then(|x| x.bytes()).map(hex).unwrap_or_else(|| "-".into()));
                rj["tokenl"] = json!(idlen(r, "token"));
                rj["values"] = match r.get("values") {
                    Some(B::List(l)) => Value::Array(l.iter().filter_map(|x| x.bytes().and_then(addr_from_compact)).map(|a| addr_json(&a)).collect()),
                    _ => json!([]),
                };
                rj["vlen"] = json!(r.get("values").map(|v| v.to_vec().len() + 8).unwrap_or(0)); // "6:values" + list
                rj["nvalues"] = match r.get("values") {
                    Some(B::List(l)) => json!(l.len()),
                    Some(_) => json!(-2),
                    None => json!(0),
                };
                rj["nodes"] = r.get("nodes").and_then(|x| x.bytes()).map(|b| nodes_json(b, 6)).unwrap_or_else(|| json!([]));
                rj["nodes6"] = r.get("nodes6").and_then(|x| x.bytes()).map(|b| nodes_json(b, 18)).unwrap_or_else(|| json!([]));
                rj["nodes_bad"] = json!(r.get("nodes").and_then(|x| x.bytes()).map(|b| b.len() % 26 != 0).unwrap_or(false)
                                        || r.get("nodes6").and_then(|x| x.bytes()).map(|b| b.len() % 38 != 0).unwrap_or(false));
                rj["keys"] = match r {
                    B::Dict(d) => Value::Array(d.iter().map(|(k, _)| json!(String::from_utf8_lossy(k).to_string())).collect()),
                    _ => json!([]),
                };
                o["r"] = rj;
            }
        }
        "e" => {
            if let Some(B::List(l)) = top.get("e") {
                let code = match l.first() {
                    Some(B::Int(c)) => *c,
                    _ => -1,
                };
                o["e"] = json!({"code": code, "msg": l.get(1).and_then(|m| m.bytes()).map(|m| String::from_utf8_lossy(m).to_string()).unwrap_or_default()});
            }
        }
        _ => {}
    }
    o
}
