//! Replayers for the component-level behaviours (spec -> impl direction, DESIGN §4.2).

use crate::util::*;
use btdht::verif;
use serde_json::{json, Value};

fn ops_of(line: &Value) -> Vec<Value> {
    match line {
        Value::Array(a) => a.clone(),
        Value::Object(o) => o.get("ops").and_then(|v| v.as_array()).cloned().unwrap_or_default(),
        _ => vec![],
    }
}

/// Token store behaviours: ops adv{d} | get{ip} | ann{ip, ref}.
/// `ref` = index (0-based position in the behaviour) of the `get` whose token is presented,
/// -1 = 20 random-looking bytes never handed out, -2 = a 19-byte token, -3 = empty.
pub fn tokens(o: &Opts) -> Res<()> {
    let behs = read_lines(o.req("in")?)?;
    let mut out = TraceOut::create(o.req("out")?)?;
    let rt = paused_rt();
    rt.block_on(async {
        verif::set_epoch();
        for beh in &behs {
            // all times are reported relative to the start of the behaviour (TLC ints are 32 bit)
            let base = verif::now_ms();
            let now = || verif::now_ms() - base;
            let mut store = verif::Tokens::new();
            let sec = |s: &verif::Tokens| {
                let (c, p, l) = s.secrets();
                (format!("{c:08x}"), format!("{p:08x}"), l - base)
            };
            let (c, p, l) = sec(&store);
            out.put(json!({"ev":"Reset","t":now(),"cur":c,"prev":p,"last":l}));
            let mut issued: Vec<Option<Vec<u8>>> = Vec::new();
            for op in ops_of(beh) {
                let kind = op["op"].as_str().unwrap_or("");
                let mut tok_here = None;
                match kind {
                    "adv" => {
                        advance_ms(op["d"].as_u64().unwrap_or(0)).await;
                        out.put(json!({"ev":"Adv","t":now()}));
                    }
                    "get" => {
                        let name = op["ip"].as_str().unwrap();
                        let tok = store.checkout(ip_of(name)).to_vec();
                        let (c, p, l) = sec(&store);
                        out.put(json!({"ev":"Get","t":now(),"ip":name,"tok":hex(&tok),
                                       "cur":c,"prev":p,"last":l}));
                        tok_here = Some(tok);
                    }
                    "ann" => {
                        let name = op["ip"].as_str().unwrap();
                        let r = op["ref"].as_i64().unwrap_or(-1);
                        let tok: Vec<u8> = match r {
                            -1 => (0..20u8).map(|i| i.wrapping_mul(37).wrapping_add(11)).collect(),
                            -2 => vec![7u8; 19],
                            -3 => vec![],
                            k => issued
                                .get(k as usize)
                                .cloned()
                                .flatten()
                                .unwrap_or_else(|| vec![1u8; 20]),
                        };
                        let v = store.checkin(ip_of(name), &tok);
                        let (c, p, l) = sec(&store);
                        out.put(json!({"ev":"Ann","t":now(),"ip":name,"tok":hex(&tok),
                                       "v":v,"cur":c,"prev":p,"last":l}));
                    }
                    _ => {}
                }
                issued.push(tok_here);
            }
        }
    });
    let n = out.finish();
    eprintln!("vh tokens: {} behaviours, {} trace lines", behs.len(), n);
    Ok(())
}

/// Model address names: "a4:1" = host a (IPv4) port 1; "c6:9" = host c (IPv6) port 9; "f123" = the
/// 123rd bulk ("fill") address, a distinct IPv4 host.
pub fn addr_of(name: &str) -> std::net::SocketAddr {
    if let Some(n) = name.strip_prefix('f') {
        let n: u32 = n.parse().unwrap_or(0);
        let ip = std::net::Ipv4Addr::new(11, (n >> 16) as u8, (n >> 8) as u8, n as u8);
        return (ip, 1000 + (n % 50000) as u16).into();
    }
    let (host, port) = name.split_once(':').unwrap_or((name, "0"));
    (ip_of(host), port.parse().unwrap_or(0)).into()
}

pub fn hash_of(name: &str) -> [u8; 20] {
    let mut h = [0u8; 20];
    for (i, b) in name.bytes().enumerate().take(20) {
        h[i] = b;
    }
    h
}

/// Peer store behaviours: ops adv{d} | add{ih,addr} | find{ih} | fill{ih,n,first} | renew{ih,k}.
pub fn peers(o: &Opts) -> Res<()> {
    use std::collections::HashMap;
    let behs = read_lines(o.req("in")?)?;
    let mut out = TraceOut::create(o.req("out")?)?;
    let rt = paused_rt();
    rt.block_on(async {
        verif::set_epoch();
        for beh in &behs {
            let base = verif::now_ms();
            let now = || verif::now_ms() - base;
            let mut store = verif::Peers::new();
            let mut names: HashMap<std::net::SocketAddr, String> = HashMap::new();
            out.put(json!({"ev":"Reset","t":now()}));
            let mut add = |store: &mut verif::Peers, out: &mut TraceOut, names: &mut HashMap<_, _>, ih: &str, a: &str| {
                let sa = addr_of(a);
                names.insert(sa, a.to_owned());
                let ok = store.add(hash_of(ih), sa);
                out.put(json!({"ev":"Add","t":verif::now_ms() - base,"ih":ih,"addr":a,"ok":ok,
                               "n":store.queue().len(),"m":store.indexed()}));
            };
            let find = |store: &mut verif::Peers, out: &mut TraceOut, names: &HashMap<std::net::SocketAddr, String>, ih: &str| -> Vec<String> {
                let got: Vec<String> = store
                    .find(hash_of(ih))
                    .iter()
                    .map(|sa| names.get(sa).cloned().unwrap_or_else(|| sa.to_string()))
                    .collect();
                out.put(json!({"ev":"Find","t":verif::now_ms() - base,"ih":ih,"out":got}));
                got
            };
            let mut bulk = false;
            for op in ops_of(beh) {
                match op["op"].as_str().unwrap_or("") {
                    "adv" => {
                        advance_ms(op["d"].as_u64().unwrap_or(0)).await;
                        out.put(json!({"ev":"Adv","t":now()}));
                    }
                    "add" => add(&mut store, &mut out, &mut names, op["ih"].as_str().unwrap(), op["addr"].as_str().unwrap()),
                    "find" => {
                        find(&mut store, &mut out, &names, op["ih"].as_str().unwrap());
                    }
                    "fill" => {
                        bulk = true;
                        let first = op["first"].as_u64().unwrap_or(0);
                        for k in 0..op["n"].as_u64().unwrap_or(0) {
                            add(&mut store, &mut out, &mut names, op["ih"].as_str().unwrap(), &format!("f{}", first + k));
                        }
                    }
                    "renew" => {
                        bulk = true;
                        let ih = op["ih"].as_str().unwrap();
                        let k = op["k"].as_u64().unwrap_or(1).max(1) as usize;
                        let cur = find(&mut store, &mut out, &names, ih);
                        for i in 1..=(cur.len() / k) {
                            add(&mut store, &mut out, &mut names, ih, &cur[i * k - 1]);
                        }
                    }
                    _ => {}
                }
            }
            let _ = bulk;
        }
    });
    let n = out.finish();
    eprintln!("vh peers: {} behaviours, {} trace lines", behs.len(), n);
    Ok(())
}
