//! Replayers for the component-level behaviours (spec -> impl direction, DESIGN §4.2).

use crate::util::*;
use btdht::verif;
use serde_json::{json, Value};

fn ops_of(line: &Value) -> Vec<Value> {
    match line {
        Value::Array(a) => a.clone(),
        Value::Object(o) => o.get("ops").and_then(|v| v.as_array()).cloned().unwrap_or_default(),
        _ => vec![],
    }
}

/// Token store behaviours: ops adv{d} | get{ip} | ann{ip, ref}.
/// `ref` = index (0-based position in the behaviour) of the `get` whose token is presented,
/// -1 = 20 random-looking bytes never handed out, -2 = a 19-byte token, -3 = empty.
pub fn tokens(o: &Opts) -> Res<()> {
    let behs = read_lines(o.req("in")?)?;
    let mut out = TraceOut::create(o.req("out")?)?;
    let rt = paused_rt();
    rt.block_on(async {
        verif::set_epoch();
        for beh in &behs {
            // all times are reported relative to the start of the behaviour (TLC ints are 32 bit)
            let base = verif::now_ms();
            let now = || verif::now_ms() - base;
            let mut store = verif::Tokens::new();
            let sec = |s: &verif::Tokens| {
                let (c, p, l) = s.secrets();
                (format!("{c:08x}"), format!("{p:08x}"), l - base)
            };
            let (c, p, l) = sec(&store);
            out.put(json!({"ev":"Reset","t":now(),"cur":c,"prev":p,"last":l}));
            let mut issued: Vec<Option<Vec<u8>>> = Vec::new();
            for op in ops_of(beh) {
                let kind = op["op"].as_str().unwrap_or("");
                let mut tok_here = None;
                match kind {
                    "adv" => {
                        advance_ms(op["d"].as_u64().unwrap_or(0)).await;
                        out.put(json!({"ev":"Adv","t":now()}));
                    }
                    "get" => {
                        let name = op["ip"].as_str().unwrap();
                        let tok = store.checkout(ip_of(name)).to_vec();
                        let (c, p, l) = sec(&store);
                        out.put(json!({"ev":"Get","t":now(),"ip":name,"tok":hex(&tok),
                                       "cur":c,"prev":p,"last":l}));
                        tok_here = Some(tok);
                    }
                    "ann" => {
                        let name = op["ip"].as_str().unwrap();
                        let r = op["ref"].as_i64().unwrap_or(-1);
                        let tok: Vec<u8> = match r {
                            -1 => (0..20u8).map(|i| i.wrapping_mul(37).wrapping_add(11)).collect(),
                            -2 => vec![7u8; 19],
                            -3 => vec![],
                            k => issued
                                .get(k as usize)
                                .cloned()
                                .flatten()
                                .unwrap_or_else(|| vec![1u8; 20]),
                        };
                        let v = store.checkin(ip_of(name), &tok);
                        let (c, p, l) = sec(&store);
                        out.put(json!({"ev":"Ann","t":now(),"ip":name,"tok":hex(&tok),
                                       "v":v,"cur":c,"prev":p,"last":l}));
                        // the same token in the wrong length (a byte appended / the last byte cut off): never issued as such
                        if r >= 0 && tok.len() == 20 {
                            for variant in [[tok.clone(), vec![tok[0]]].concat(), tok[..19].to_vec()] {
                                let v = store.checkin(ip_of(name), &variant);
                                let (c, p, l) = sec(&store);
                                out.put(json!({"ev":"Ann","t":now(),"ip":name,"tok":hex(&variant),
                                               "v":v,"cur":c,"prev":p,"last":l}));
                            }
                        }
                    }
                    _ => {}
                }
                issued.push(tok_here);
            }
        }
    });
    let n = out.finish();
    eprintln!("vh tokens: {} behaviours, {} trace lines", behs.len(), n);
    Ok(())
}

/// Model address names: "a4:1" = host a (IPv4) port 1; "c6:9" = host c (IPv6) port 9; "f123" = the
/// 123rd bulk ("fill") address, a distinct IPv4 host.
pub fn addr_of(name: &str) -> std::net::SocketAddr {
    if let Some(n) = name.strip_prefix('f') {
        let n: u32 = n.parse().unwrap_or(0);
        let ip = std::net::Ipv4Addr::new(11, (n >> 16) as u8, (n >> 8) as u8, n as u8);
        return (ip, 1000 + (n % 50000) as u16).into();
    }
    let (host, port) = name.split_once(':').unwrap_or((name, "0"));
    (ip_of(host), port.parse().unwrap_or(0)).into()
}

pub fn hash_of(name: &str) -> [u8; 20] {
    let mut h = [0u8; 20];
    for (i, b) in name.bytes().enumerate().take(20) {
        h[i] = b;
    }
    h
}

/// Peer store behaviours: ops adv{d} | add{ih,addr} | find{ih} | fill{ih,n,first} | renew{ih,k}.
pub fn peers(o: &Opts) -> Res<()> {
    use std::collections::HashMap;
    let behs = read_lines(o.req("in")?)?;
    let mut out = TraceOut::create(o.req("out")?)?;
    let rt = paused_rt();
    rt.block_on(async {
        verif::set_epoch();
        for beh in &behs {
            let base = verif::now_ms();
            let now = || verif::now_ms() - base;
            let mut store = verif::Peers::new();
            let mut names: HashMap<std::net::SocketAddr, String> = HashMap::new();
            out.put(json!({"ev":"Reset","t":now()}));
            let mut add = |store: &mut verif::Peers, out: &mut TraceOut, names: &mut HashMap<_, _>, ih: &str, a: &str| {
                let sa = addr_of(a);
                names.insert(sa, a.to_owned());
                let ok = store.add(hash_of(ih), sa);
                out.put(json!({"ev":"Add","t":verif::now_ms() - base,"ih":ih,"addr":a,"ok":ok,
                               "n":store.queue().len(),"m":store.indexed()}));
            };
            let find = |store: &mut verif::Peers, out: &mut TraceOut, names: &HashMap<std::net::SocketAddr, String>, ih: &str| -> Vec<String> {
                let got: Vec<String> = store
                    .find(hash_of(ih))
                    .iter()
                    .map(|sa| names.get(sa).cloned().unwrap_or_else(|| sa.to_string()))
                    .collect();
                out.put(json!({"ev":"Find","t":verif::now_ms() - base,"ih":ih,"out":got}));
                got
            };
            let mut bulk = false;
            for op in ops_of(beh) {
                match op["op"].as_str().unwrap_or("") {
                    "adv" => {
                        advance_ms(op["d"].as_u64().unwrap_or(0)).await;
                        out.put(json!({"ev":"Adv","t":now()}));
                    }
                    "add" => add(&mut store, &mut out, &mut names, op["ih"].as_str().unwrap(), op["addr"].as_str().unwrap()),
                    "find" => {
                        find(&mut store, &mut out, &names, op["ih"].as_str().unwrap());
                    }
                    "fill" => {
                        bulk = true;
                        let first = op["first"].as_u64().unwrap_or(0);
                        for k in 0..op["n"].as_u64().unwrap_or(0) {
                            add(&mut store, &mut out, &mut names, op["ih"].as_str().unwrap(), &format!("f{}", first + k));
                        }
                    }
                    "renew" => {
                        bulk = true;
                        let ih = op["ih"].as_str().unwrap();
                        let k = op["k"].as_u64().unwrap_or(1).max(1) as usize;
                        let cur = find(&mut store, &mut out, &names, ih);
                        for i in 1..=(cur.len() / k) {
                            add(&mut store, &mut out, &mut names, ih, &cur[i * k - 1]);
                        }
                    }
                    _ => {}
                }
            }
            let _ = bulk;
        }
    });
    let n = out.finish();
    eprintln!("vh peers: {} behaviours, {} trace lines", behs.len(), n);
    Ok(())
}

// ------------------------------------------------------------------------------------ table

const NONE_T: i64 = -2_000_000_000;

/// Id specifications in behaviours: a number (model id of `bits` bits: these are the leading bits, the
/// rest is zero), a string of '0'/'1' (leading bits, rest zero), or "x<40 hex digits>".
pub fn id_of(v: &Value, bits: u32) -> [u8; 20] {
    let mut id = [0u8; 20];
    let mut set_bits = |s: &str| {
        for (i, ch) in s.chars().enumerate().take(160) {
            if ch == '1' {
                id[i / 8] |= 1 << (7 - (i % 8));
            }
        }
    };
    match v {
        Value::Number(n) => {
            let n = n.as_u64().unwrap_or(0);
            let s: String = (0..bits).map(|i| if (n >> (bits - 1 - i)) & 1 == 1 { '1' } else { '0' }).collect();
            set_bits(&s);
        }
        Value::String(s) if s.starts_with('x') => {
            for i in 0..20 {
                id[i] = u8::from_str_radix(s.get(1 + 2 * i..3 + 2 * i).unwrap_or("00"), 16).unwrap_or(0);
            }
        }
        Value::String(s) => set_bits(s),
        _ => {}
    }
    id
}

fn slot_json(s: &verif::SlotDump, base: i64) -> Value {
    if s.last_response.is_none() {
        return json!({"e": 1});
    }
    let rel = |t: Option<i64>| t.map(|t| t - base).unwrap_or(NONE_T);
    json!({"id": bytes_json(&s.id), "addr": addr_json(&s.addr), "rsp": rel(s.last_response),
           "req": rel(s.last_request), "loc": rel(s.last_local_request), "cnt": s.refresh_requests, "st": s.status})
}

/// The buckets that differ from the previous dump: [nb, [[index(1-based), slots], ...]]
fn table_diff(prev: &mut Vec<Vec<verif::SlotDump>>, cur: Vec<Vec<verif::SlotDump>>, base: i64) -> Value {
    let mut ch = Vec::new();
    for (i, b) in cur.iter().enumerate() {
        if prev.get(i) != Some(b) {
            ch.push(json!([i + 1, b.iter().map(|s| slot_json(s, base)).collect::<Vec<_>>()]));
        }
    }
    let v = json!([cur.len(), ch]);
    *prev = cur;
    v
}

/// Routing table behaviours: ops reset{self,routers,bits} | adv{d} | good{id,addr} | quest{id,addr} |
/// local{id,addr} | remote{id,addr} | closest{target} | contacts.  `--probe 1` adds a Closest probe for the
/// id of every operation and a Contacts read-back after every operation, and a sweep of targets at the end.
pub fn table(o: &Opts) -> Res<()> {
    let behs = read_lines(o.req("in")?)?;
    let mut out = TraceOut::create(o.req("out")?)?;
    // probe levels: 0 none; 1 = a sweep of targets at the end of each behaviour; 2 = additionally a Closest probe
    // for the id of every operation and a Contacts read-back after every operation
    let probe_lvl = o.num("probe", 1);
    let rt = paused_rt();
    rt.block_on(async {
        verif::set_epoch();
        for beh in &behs {
            let ops = ops_of(beh);
            let base = verif::now_ms();
            let now = || verif::now_ms() - base;
            let mut bits = 4u32;
            let mut self_id = id_of(&json!("0101"), 4);
            let mut routers: Vec<String> = vec![];
            let mut start = 0;
            if let Some(first) = ops.first() {
                if first["op"] == "reset" {
                    bits = first["bits"].as_u64().unwrap_or(4) as u32;
                    self_id = id_of(&first["self"], bits);
                    routers = first["routers"].as_array().map(|a| a.iter().filter_map(|x| x.as_str().map(String::from)).collect()).unwrap_or_default();
                    start = 1;
                }
            } else {
                continue;
            }
            if let Some(m) = beh.get("meta") {
                bits = m["bits"].as_u64().unwrap_or(bits as u64) as u32;
                self_id = id_of(&m["self"], bits);
                routers = m["routers"].as_array().map(|a| a.iter().filter_map(|x| x.as_str().map(String::from)).collect()).unwrap_or_default();
            }
            let mut table = verif::Table::new(self_id);
            table.set_routers(routers.iter().map(|r| addr_of(r)).collect());
            out.put(json!({"ev":"Reset","t":now(),"self":bytes_json(&self_id),
                           "routers": routers.iter().map(|r| addr_json(&addr_of(r))).collect::<Vec<_>>()}));
            let mut prev = table.dump();
            let mut seen: Vec<[u8; 20]> = vec![];
            let closest = |table: &verif::Table, out: &mut TraceOut, target: [u8; 20], t: i64| {
                let got: Vec<Value> = table.closest(target).iter().map(|s| json!({"id": bytes_json(&s.id), "addr": addr_json(&s.addr)})).collect();
                out.put(json!({"ev":"Closest","t":t,"target":bytes_json(&target),"out":got}));
            };
            let contacts = |table: &verif::Table, out: &mut TraceOut, t: i64| {
                let (g, q) = table.contacts();
                let (ng, nq) = table.counts();
                let mut g: Vec<_> = g.iter().collect();
                let mut q: Vec<_> = q.iter().collect();
                g.sort();
                q.sort();
                out.put(json!({"ev":"Contacts","t":t,"good":g.iter().map(|a| addr_json(a)).collect::<Vec<_>>(),
                               "quest":q.iter().map(|a| addr_json(a)).collect::<Vec<_>>(),"ng":ng,"nq":nq}));
            };
            for op in &ops[start..] {
                let kind = op["op"].as_str().unwrap_or("");
                let id = id_of(&op["id"], bits);
                let addr = addr_of(op["addr"].as_str().unwrap_or("a4:1"));
                let mut mutating = true;
                match kind {
                    "adv" => advance_ms(op["d"].as_u64().unwrap_or(0)).await,
                    // the library reaches the table through add_nodes(responder, named) only -- use that door: an answer naming
                    // nobody, and an answer from a responder claiming our own id (never admitted) naming the contact as hearsay
                    "good" => table.add_nodes(id, addr, &[]),
                    "quest" => table.add_nodes(self_id, addr_of("z4:9"), &[(id, addr)]),
                    "local" => {
                        table.mark_local(id, addr);
                    }
                    "remote" => {
                        table.mark_remote(id, addr);
                    }
                    "closest" => {
                        closest(&table, &mut out, id_of(&op["target"], bits), now());
                        mutating = false;
                    }
                    "contacts" => {
                        contacts(&table, &mut out, now());
                        mutating = false;
                    }
                    _ => mutating = false,
                }
                if mutating {
                    let ch = table_diff(&mut prev, table.dump(), base);
                    let ev = match kind { "adv" => "Adv", "good" => "Good", "quest" => "Quest", "local" => "Local", _ => "Remote" };
                    if kind == "adv" {
                        out.put(json!({"ev":ev,"t":now(),"ch":ch}));
                    } else {
                        out.put(json!({"ev":ev,"t":now(),"id":bytes_json(&id),"addr":addr_json(&addr),"ch":ch}));
                        if !seen.contains(&id) {
                            seen.push(id);
                        }
                    }
                    if probe_lvl >= 2 {
                        if kind != "adv" {
                            closest(&table, &mut out, id, now());
                        }
                        contacts(&table, &mut out, now());
                    }
                }
            }
            if probe_lvl >= 1 {
                contacts(&table, &mut out, now());
                let mut targets = vec![self_id];
                let flips: &[usize] = if probe_lvl >= 2 { &[0, 1, 2, 3, 4, 5, 6, 7, 8, 20, 159] } else { &[0, 1, 2, 3] };
                for &b in flips {
                    let mut f = self_id;
                    f[b / 8] ^= 1 << (7 - (b % 8));
                    targets.push(f);
                }
                targets.extend(seen.iter().take(if probe_lvl >= 2 { 12 } else { 2 }).copied());
                for tg in targets {
                    closest(&table, &mut out, tg, now());
                }
            }
        }
    });
    let n = out.finish();
    eprintln!("vh table: {} behaviours, {} trace lines", behs.len(), n);
    Ok(())
}

// ------------------------------------------------------------------------------------ txn ids

/// Draw 2^24 + 3*2048 transaction ids from one MIDGenerator and 3*2048 activities from the AIDGenerator and
/// write the reduced trace described in spec/trace/TxnTrace.tla.
pub fn txn(o: &Opts) -> Res<()> {
    let mut out = TraceOut::create(o.req("out")?)?;
    const BLOCK: usize = 2048;
    const MMAX: usize = 1 << 24;
    let extra_blocks = o.num("extra", 3) as usize;
    let n = MMAX + extra_blocks * BLOCK;
    out.put(json!({"ev":"Reset","t":0}));
    let mut aids = verif::Aids::new();
    let mut mids = aids.generate();
    let prefix = mids.action_id();
    let mut last_seen = vec![u32::MAX; MMAX]; // index of the last draw of each message id
    let mut first_repeat: i64 = -1;
    let mut min_gap: i64 = -1;
    let nblk = MMAX / BLOCK;
    let mut k = 0usize;
    let mut drawn = 0usize;
    while drawn < n {
        let mut min = u32::MAX;
        let mut max = 0u32;
        let mut prefix_ok = true;
        let mut block = Vec::with_capacity(BLOCK);
        for _ in 0..BLOCK {
            let tid = mids.generate();
            let v = u64::from_be_bytes(tid);
            let p = v >> 24;
            let m = (v & 0xff_ffff) as u32;
            if p != prefix {
                prefix_ok = false;
            }
            min = min.min(m);
            max = max.max(m);
            let idx = drawn as u32;
            let prev = last_seen[m as usize];
            if prev != u32::MAX && prefix_ok {
                if first_repeat < 0 {
                    first_repeat = drawn as i64 + 1; // 1-based index of the repeating draw
                }
                let gap = (idx - prev) as i64;
                if min_gap < 0 || gap < min_gap {
                    min_gap = gap;
                }
            }
            last_seen[m as usize] = idx;
            block.push(m);
            drawn += 1;
        }
        let mut sorted = block.clone();
        sorted.sort_unstable();
        sorted.dedup();
        out.put(json!({"ev":"MidBlock","k":k,"min":min,"max":max,"distinct":sorted.len(),"prefix_ok":prefix_ok,"len_ok":true}));
        if k == 0 || k == nblk - 1 || k == nblk {
            out.put(json!({"ev":"MidFull","k":k,"mids":block}));
        }
        k += 1;
    }
    out.put(json!({"ev":"MidRun","n":drawn,"first_repeat":first_repeat,"min_gap":min_gap}));
    // activities
    let mut list = vec![format!("{prefix:010x}")];
    let mut consistent = true;
    for _ in 0..(3 * BLOCK) {
        let mut g = aids.generate();
        let a = g.action_id();
        let t = u64::from_be_bytes(g.generate());
        if t >> 24 != a {
            consistent = false;
        }
        list.push(format!("{a:010x}"));
    }
    out.put(json!({"ev":"Aids","aids":list,"consistent":consistent}));
    let lines = out.finish();
    eprintln!("vh txn: {} draws, {} trace lines", drawn, lines);
    Ok(())
}

// ------------------------------------------------------------------------------------ bep42

/// C20: ids from the public InfoHash::from_ip for a stratified set of addresses.
/// IPv4: every one of the 20 mask-relevant bits is exercised both ways (`--classes all` = all 2^20 classes once,
/// otherwise `--n4` stratified random ones), the remaining bits random; IPv6: random /64 prefixes.
/// `--part i/n` writes only the i-th of n slices (for parallel validation).
pub fn bep42(o: &Opts) -> Res<()> {
    use rand::{Rng, SeedableRng};
    let mut out = TraceOut::create(o.req("out")?)?;
    let seed = o.num("seed", 1);
    let mut rng = rand::rngs::StdRng::seed_from_u64(seed);
    let n4 = o.num("n4", 4000);
    let n6 = o.num("n6", 1000);
    let all = o.get("classes") == Some("all");
    let (pi, pn) = o.get("part").and_then(|p| p.split_once('/')).map(|(a, b)| (a.parse::<u64>().unwrap_or(0), b.parse::<u64>().unwrap_or(1))).unwrap_or((0, 1));
    out.put(json!({"ev":"Reset","t":0}));
    // mask 0x030f3fff: relevant bits of the 32-bit address
    let relevant: Vec<u32> = (0..32).filter(|b| (0x030f_3fffu32 >> b) & 1 == 1).collect();
    let mut emit4 = |class: u32, rng: &mut rand::rngs::StdRng, out: &mut TraceOut| {
        let mut ip: u32 = rng.gen::<u32>() & !0x030f_3fff;
        for (i, b) in relevant.iter().enumerate() {
            if (class >> i) & 1 == 1 {
                ip |= 1 << b;
            }
        }
        let addr = std::net::Ipv4Addr::from(ip);
        let id = btdht::InfoHash::from_ip(addr.into());
        out.put(json!({"ev":"Id","ip":bytes_json(&addr.octets()),"id":bytes_json(id.as_ref())}));
    };
    if all {
        for class in 0..(1u32 << 20) {
            if (class as u64) % pn == pi {
                emit4(class, &mut rng, &mut out);
            }
        }
    } else {
        for k in 0..n4 {
            // stratified: walk single-bit and pair patterns first, then random classes
            let class = if k < 20 { 1u32 << k } else if k < 40 { !(1u32 << (k - 20)) & 0xf_ffff } else { rng.gen::<u32>() & 0xf_ffff };
            emit4(class, &mut rng, &mut out);
        }
    }
    for k in 0..n6 {
        if k % pn != pi {
            continue;
        }
        let mut o16 = [0u8; 16];
        rng.fill(&mut o16);
        if k < 64 {
            // single-bit patterns over the 64 prefix bits
            o16[..8].copy_from_slice(&(1u64 << k).to_be_bytes());
        }
        let addr = std::net::Ipv6Addr::from(o16);
        let id = btdht::InfoHash::from_ip(addr.into());
        out.put(json!({"ev":"Id","ip":bytes_json(&addr.octets()),"id":bytes_json(id.as_ref())}));
    }
    out.put(json!({"ev":"End"}));
    let lines = out.finish();
    eprintln!("vh bep42: {} trace lines", lines);
    Ok(())
}
