//! Replayers for the component-level behaviours (spec -> impl direction, DESIGN §4.2).

use crate::util::*;
use btdht::verif;
use serde_json::{json, Value};

fn ops_of(line: &Value) -> Vec<Value> {
    match line {
        Value::Array(a) => a.clone(),
        Value::Object(o) => o.get("ops").and_then(|v| v.as_array()).cloned().unwrap_or_default(),
        _ => vec![],
    }
}

/// Token store behaviours: ops adv{d} | get{ip} | ann{ip, ref}.
/// `ref` = index (0-based position in the behaviour) of the `get` whose token is presented,
/// -1 = 20 random-looking bytes never handed out, -2 = a 19-byte token, -3 = empty.
pub fn tokens(o: &Opts) -> Res<()> {
    let behs = read_lines(o.req("in")?)?;
    let mut out = TraceOut::create(o.req("out")?)?;
    let rt = paused_rt();
    rt.block_on(async {
        verif::set_epoch();
        for beh in &behs {
            // all times are reported relative to the start of the behaviour (TLC ints are 32 bit)
            let base = verif::now_ms();
            let now = || verif::now_ms() - base;
            let mut store = verif::Tokens::new();
            let sec = |s: &verif::Tokens| {
                let (c, p, l) = s.secrets();
                (format!("{c:08x}"), format!("{p:08x}"), l - base)
            };
            let (c, p, l) = sec(&store);
            out.put(json!({"ev":"Reset","t":now(),"cur":c,"prev":p,"last":l}));
            let mut issued: Vec<Option<Vec<u8>>> = Vec::new();
            for op in ops_of(beh) {
                let kind = op["op"].as_str().unwrap_or("");
                let mut tok_here = None;
                match kind {
                    "adv" => {
                        advance_ms(op["d"].as_u64().unwrap_or(0)).await;
                        out.put(json!({"ev":"Adv","t":now()}));
                    }
                    "get" => {
                        let name = op["ip"].as_str().unwrap();
                        let tok = store.checkout(ip_of(name)).to_vec();
                        let (c, p, l) = sec(&store);
                        out.put(json!({"ev":"Get","t":now(),"ip":name,"tok":hex(&tok),
                                       "cur":c,"prev":p,"last":l}));
                        tok_here = Some(tok);
                    }
                    "ann" => {
                        let name = op["ip"].as_str().unwrap();
                        let r = op["ref"].as_i64().unwrap_or(-1);
                        let tok: Vec<u8> = match r {
                            -1 => (0..20u8).map(|i| i.wrapping_mul(37).wrapping_add(11)).collect(),
                            -2 => vec![7u8; 19],
                            -3 => vec![],
                            k => issued
                                .get(k as usize)
                                .cloned()
                                .flatten()
                                .unwrap_or_else(|| vec![1u8; 20]),
                        };
                        let v = store.checkin(ip_of(name), &tok);
                        let (c, p, l) = sec(&store);
                        out.put(json!({"ev":"Ann","t":now(),"ip":name,"tok":hex(&tok),
                                       "v":v,"cur":c,"prev":p,"last":l}));
                    }
                    _ => {}
                }
                issued.push(tok_here);
            }
        }
    });
    let n = out.finish();
    eprintln!("vh tokens: {} behaviours, {} trace lines", behs.len(), n);
    Ok(())
}
