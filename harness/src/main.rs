//! `vh` -- verification harness for equalitie/btdht (see /verif/DESIGN.md §4).
//!
//! Every sub-command reads behaviours / parameters, drives the REAL code (built from /repo with
//! `--cfg btdht_verif`) on tokio's paused clock and writes an NDJSON trace that TLC validates
//! against the trace specifications under /verif/spec/trace.

mod benc;
mod comp;
mod node;
mod sim;
mod util;
mod wire;

use std::process::ExitCode;

#[global_allocator]
static ALLOC: wire::Counting = wire::Counting;

fn main() -> ExitCode {
    let args: Vec<String> = std::env::args().collect();
    if args.len() < 2 {
        eprintln!("usage: vh <tokens|peers|table|txn|bep42|wire|...> [options]");
        return ExitCode::from(2);
    }
    let opts = util::Opts::parse(&args[2..]);
    let r = match args[1].as_str() {
        "tokens" => comp::tokens(&opts),
        "peers" => comp::peers(&opts),
        "table" => comp::table(&opts),
        "txn" => comp::txn(&opts),
        "bep42" => comp::bep42(&opts),
        "node" => node::run(&opts),
        "wire" => if opts.get("in").is_some() { wire::wire_replay(&opts) } else { wire::wire(&opts) },
        "decode" => wire::decode_worker(&opts),
        "corpus" => wire::corpus(&opts),
        other => {
            eprintln!("unknown sub-command {other}");
            return ExitCode::from(2);
        }
    };
    match r {
        Ok(()) => ExitCode::SUCCESS,
        Err(e) => {
            eprintln!("vh: {e}");
            ExitCode::from(2)
        }
    }
}
