use serde_json::{json, Value};
use std::{
    collections::HashMap,
    fs::File,
    io::{BufRead, BufReader, BufWriter, Write},
    net::{IpAddr, Ipv4Addr, Ipv6Addr, SocketAddr},
};

pub type Res<T> = Result<T, Box<dyn std::error::Error>>;

/// `--key value` options.
pub struct Opts(HashMap<String, String>);

impl Opts {
    pub fn parse(args: &[String]) -> Self {
        let mut m = HashMap::new();
        let mut i = 0;
        while i < args.len() {
            if let Some(k) = args[i].strip_prefix("--") {
                let v = args.get(i + 1).cloned().unwrap_or_default();
                m.insert(k.to_owned(), v);
                i += 2;
            } else {
                i += 1;
            }
        }
        Opts(m)
    }
    pub fn get(&self, k: &str) -> Option<&str> {
        self.0.get(k).map(|s| s.as_str())
    }
    pub fn req(&self, k: &str) -> Res<&str> {
        self.get(k).ok_or_else(|| format!("missing --{k}").into())
    }
    pub fn num(&self, k: &str, default: u64) -> u64 {
        self.get(k).and_then(|v| v.parse().ok()).unwrap_or(default)
    }
}

pub fn read_lines(path: &str) -> Res<Vec<Value>> {
    let f = BufReader::new(File::open(path)?);
    let mut out = Vec::new();
    for line in f.lines() {
        let line = line?;
        if line.trim().is_empty() {
            continue;
        }
        out.push(serde_json::from_str(&line)?);
    }
    Ok(out)
}

pub struct TraceOut {
    w: BufWriter<File>,
    pub lines: u64,
}

impl TraceOut {
    pub fn create(path: &str) -> Res<Self> {
        Ok(Self {
            w: BufWriter::new(File::create(path)?),
            lines: 0,
        })
    }
    pub fn put(&mut self, v: Value) {
        serde_json::to_writer(&mut self.w, &v).unwrap();
        self.w.write_all(b"\n").unwrap();
        self.lines += 1;
    }
    pub fn finish(mut self) -> u64 {
        self.w.flush().unwrap();
        self.lines
    }
    pub fn flush(&mut self) -> u64 {
        self.w.flush().unwrap();
        self.lines
    }
}

pub fn hex(b: &[u8]) -> String {
    b.iter().map(|b| format!("{b:02x}")).collect()
}

pub fn bytes_json(b: &[u8]) -> Value {
    Value::Array(b.iter().map(|b| json!(*b)).collect())
}

/// Model IP names ("a4", "b4", "c6", ...): the letter selects the host, a trailing 6 the family.
pub fn ip_of(name: &str) -> IpAddr {
    let idx = name.bytes().next().map(|b| b.wrapping_sub(b'a') as u16 + 1).unwrap_or(1);
    if name.ends_with('6') {
        IpAddr::V6(Ipv6Addr::new(0x2001, 0xdb8, 0, 0, 0, 0, 0, idx))
    } else {
        IpAddr::V4(Ipv4Addr::new(10, 0, (idx >> 8) as u8, (idx & 0xff) as u8))
    }
}

pub fn addr_json(a: &SocketAddr) -> Value {
    json!({"fam": if a.is_ipv4() {4} else {6}, "ip": a.ip().to_string(), "port": a.port()})
}

pub fn addr_str(a: &SocketAddr) -> String {
    a.to_string()
}

/// Single-threaded runtime on the paused (virtual) clock.
pub fn paused_rt() -> tokio::runtime::Runtime {
    tokio::runtime::Builder::new_current_thread()
        .enable_time()
        .start_paused(true)
        .build()
        .unwrap()
}

pub async fn advance_ms(ms: u64) {
    tokio::time::advance(std::time::Duration::from_millis(ms)).await;
}
