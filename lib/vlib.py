"""Shared machinery of /verif/bin/check: build, TLC runs (MC / generation / trace validation),
result parsing, evidence, verdicts.  See DESIGN.md §7."""
import hashlib
import json
import os
import re
import shutil
import subprocess
import sys
import time

VERIF = os.path.dirname(os.path.dirname(os.path.abspath(__file__)))
SPEC = os.path.join(VERIF, "spec")
# Development only (bin/audit): VERIF_SCRATCH=<dir> makes a run use <dir>/harness (a copy of the harness whose btdht
# dependency points at a scratch copy of the repository) and write work files, evidence and replays under <dir>,
# so that audits of seeded changes never touch /repo or /verif/evidence.  Registered checks never set it.
SCRATCH = os.environ.get("VERIF_SCRATCH")
OUT = SCRATCH or VERIF
HARNESS = os.path.join(OUT, "harness")
VH = os.path.join(HARNESS, "target", "release", "vh")
TLA_CP = "/opt/veriftools/tla/tla2tools.jar:/opt/veriftools/tla/CommunityModules-deps.jar"


class ToolError(Exception):
    pass


def log(*a):
    print(*a, flush=True)


def seed():
    try:
        return int(os.environ.get("VERIF_SEED", "20260923"))
    except ValueError:
        return 20260923


def workdir(pid):
    d = os.path.join(OUT, "work", pid)
    shutil.rmtree(d, ignore_errors=True)
    os.makedirs(d, exist_ok=True)
    return d


def replay_dir():
    d = os.path.join(OUT, "replays")
    os.makedirs(d, exist_ok=True)
    return d


def child_limits():
    """For processes that run the code under test: no core dumps, address space capped at 4 GiB (an absurd allocation
    fails fast instead of being satisfied lazily)."""
    import resource
    resource.setrlimit(resource.RLIMIT_CORE, (0, 0))
    resource.setrlimit(resource.RLIMIT_AS, (4 << 30, 4 << 30))


def sh(cmd, timeout=None, cwd=None, env=None, check=False, limits=False):
    e = dict(os.environ)
    if env:
        e.update(env)
    p = subprocess.run(cmd, cwd=cwd, env=e, timeout=timeout, stdout=subprocess.PIPE,
                       stderr=subprocess.STDOUT, text=True, errors="replace", preexec_fn=child_limits if limits else None)
    if check and p.returncode != 0:
        raise ToolError("command failed (%d): %s\n%s" % (p.returncode, " ".join(cmd), p.stdout[-4000:]))
    return p.returncode, p.stdout


_built = False


def build_harness():
    """(Re)build the harness against /repo's current working tree, hooks on."""
    global _built
    if _built:
        return
    t0 = time.time()
    env = {"CARGO_NET_OFFLINE": "true"}
    rc, out = sh(["cargo", "build", "--release", "--offline"], cwd=HARNESS, env=env, timeout=1800)
    if rc != 0:
        raise ToolError("harness build failed:\n" + out[-6000:])
    _built = True
    log("[build] harness built in %.0fs" % (time.time() - t0))


def vh(args, timeout=1800, allow_fail=False):
    build_harness()
    rc, out = sh([VH] + args, timeout=timeout, limits=True)
    if rc != 0 and not allow_fail:
        raise ToolError("vh %s failed (%d):\n%s" % (" ".join(args[:3]), rc, out[-4000:]))
    return rc, out


# ------------------------------------------------------------------------------------------ TLC

class TlcResult:
    def __init__(self, rc, out, wall):
        self.rc = rc
        self.out = out
        self.wall = wall
        m = re.search(r"(\d+) states generated, (\d+) distinct states found", out)
        self.generated = int(m.group(1)) if m else 0
        self.distinct = int(m.group(2)) if m else 0
        m = re.search(r"depth of the complete state graph search is (\d+)", out)
        self.depth = int(m.group(1)) if m else 0
        self.no_error = "Model checking completed. No error has been found." in out
        self.inv_violated = re.findall(r"Invariant (\w+) is violated", out)
        self.prop_violated = re.findall(r"(?:Action property|Temporal properties?) (\w*)", out) if "violated" in out else []
        self.parse_error = ("Parsing or semantic analysis failed" in out or "*** Errors:" in out
                            or "Semantic errors" in out)
        self.replays = []
        self.prints = []

    def printed(self, tag):
        """Values printed by PrintT(<<"TAG", ...>>) (TLC pretty-prints long tuples over several lines)."""
        res = []
        for m in re.finditer(r'^<<\s*"%s"[^\n]*' % tag, self.out, re.M):
            res.append(m.group(0))
        return res

    def coverage(self):
        """per-action (name -> distinct states found) from -coverage output, best effort."""
        cov = {}
        for m in re.finditer(r"<(\w+) line \d+, col \d+ to line \d+, col \d+ of module (\w+)>: (\d+):(\d+)", self.out):
            cov[m.group(1)] = (int(m.group(3)), int(m.group(4)))
        return cov


def _spec_digest():
    h = hashlib.sha1()
    for d in (SPEC, os.path.join(SPEC, "mc")):
        for f in sorted(os.listdir(d)):
            if f.endswith(".tla"):
                h.update(f.encode())
                h.update(open(os.path.join(d, f), "rb").read())
    return h.hexdigest()


def tlc(spec_tla, cfg, workers=8, timeout=900, simulate=None, depth=None, seed_=None, env=None,
        metadir=None, java_opts=None, extra=None, coverage=False, dfs=False, heap="8g"):
    """Run TLC on spec_tla (path relative to SPEC or absolute) with cfg.
    Design-level model-checking runs (no TRACE environment) depend only on the specification files and the configuration, not on
    /repo: their outcome is memoised under work/mc-cache so that the checks of properties that share a model (C08/C09/C10, C05/C12,
    C02/C03/C04, C15/C16/C18) do not repeat it within one sandbox.  The memo is keyed by the content of every spec file."""
    spec_tla = spec_tla if os.path.isabs(spec_tla) else os.path.join(SPEC, spec_tla)
    cfg = cfg if os.path.isabs(cfg) else os.path.join(SPEC, cfg)
    cache_file = None
    if env is None and os.environ.get("VERIF_NO_MC_CACHE") != "1":
        key = hashlib.sha1((_spec_digest() + open(cfg).read() + os.path.basename(spec_tla) +
                            repr((simulate, depth, seed_, extra))).encode()).hexdigest()
        cdir = os.path.join(OUT, "work", "mc-cache")
        os.makedirs(cdir, exist_ok=True)
        cache_file = os.path.join(cdir, key + ".json")
        if os.path.exists(cache_file):
            try:
                c = json.load(open(cache_file))
                r = TlcResult(c["rc"], c["out"], c["wall"])
                r.cmd = c["cmd"] + "   # (memoised result of an identical model-checking run in this sandbox)"
                return r
            except Exception:
                pass
    metadir = metadir or os.path.join(OUT, "work", "tlc-%d-%d" % (os.getpid(), int(time.time() * 1000) % 100000000))
    jopts = ["-XX:+UseParallelGC", "-Xmx" + heap, "-Xss1g", "-DTLA-Library=" + SPEC + os.pathsep + os.path.join(SPEC, "trace") + os.pathsep + os.path.join(SPEC, "mc")]
    if dfs:
        jopts.append("-Dtlc2.tool.queue.IStateQueue=StateDeque")
    if java_opts:
        jopts += java_opts
    cmd = ["java"] + jopts + ["-cp", TLA_CP, "tlc2.TLC", "-workers", str(workers), "-metadir", metadir,
                              "-cleanup", "-noGenerateSpecTE", "-checkpoint", "0", "-config", cfg]
    # -checkpoint 0: no periodic checkpoints (after 30 minutes TLC would try to checkpoint, which the depth-first StateDeque used
    # for trace validation does not support: the run would die without a verdict)
    if simulate is not None:
        cmd += ["-simulate", "num=%d" % simulate]
        if depth:
            cmd += ["-depth", str(depth)]
    elif depth:
        cmd += ["-depth", str(depth)]
    if seed_ is not None:
        cmd += ["-seed", str(seed_)]
    if coverage:
        cmd += ["-coverage", "1"]
    if extra:
        cmd += extra
    cmd.append(spec_tla)
    t0 = time.time()
    try:
        rc, out = sh(cmd, timeout=timeout, cwd=os.path.dirname(spec_tla), env=env)
    except subprocess.TimeoutExpired:
        shutil.rmtree(metadir, ignore_errors=True)
        raise ToolError("TLC timed out after %ds: %s" % (timeout, os.path.basename(cfg)))
    shutil.rmtree(metadir, ignore_errors=True)
    r = TlcResult(rc, out, time.time() - t0)
    r.cmd = " ".join(cmd)
    if r.parse_error:
        raise ToolError("TLC could not parse %s:\n%s" % (spec_tla, out[-5000:]))
    if cache_file and (r.no_error or r.inv_violated):
        keep = "\n".join(l for l in out.splitlines() if not l.startswith(("Parsing file", "Semantic processing", "Linting")))
        with open(cache_file, "w") as f:
            json.dump({"rc": rc, "out": keep[-400000:] if "REPLAY" not in keep else keep, "wall": r.wall, "cmd": r.cmd}, f)
    return r


def apalache(spec_tla, init, inv, length, timeout=900):
    """One Apalache bounded check (used for inductive invariants: `length=0` from Init, `length=1` from the invariant itself)."""
    spec_tla = spec_tla if os.path.isabs(spec_tla) else os.path.join(SPEC, spec_tla)
    out_dir = os.path.join(OUT, "work", "apalache-%d" % os.getpid())
    cmd = ["apalache-mc", "check", "--out-dir=" + out_dir, "--init=" + init, "--inv=" + inv, "--length=%d" % length, spec_tla]
    t0 = time.time()
    try:
        rc, out = sh(cmd, timeout=timeout, cwd=os.path.dirname(spec_tla))
    except subprocess.TimeoutExpired:
        raise ToolError("apalache timed out: " + " ".join(cmd))
    shutil.rmtree(out_dir, ignore_errors=True)
    ok = "The outcome is: NoError" in out and rc == 0
    return ok, out, time.time() - t0, " ".join(cmd)


def extract_replays(res, path):
    """Write the JSON payloads of PrintT(<<"REPLAY", ToJson(x)>>) lines to an NDJSON file."""
    n = 0
    seen = set()
    with open(path, "w") as f:
        for line in res.out.splitlines():
            if not line.startswith('<<"REPLAY", "'):
                continue
            body = line[len('<<"REPLAY", "'):]
            if body.endswith('">>'):
                body = body[:-3]
            body = body.replace('\\"', '"').replace("\\\\", "\\")
            h = hashlib.sha1(body.encode()).digest()
            if h in seen:
                continue
            seen.add(h)
            f.write(body + "\n")
            n += 1
    return n


def require_mc_ok(res, what):
    if not res.no_error:
        raise ToolError("model checking of %s did not complete cleanly:\n%s" % (what, res.out[-3000:]))


def require_mc_fails(res, inv, what):
    """The deliberately broken variant must be caught, else the model is too weak (vacuity)."""
    if inv not in res.inv_violated and inv not in res.out:
        raise ToolError("vacuity guard: broken variant %s was NOT caught by %s:\n%s" % (what, inv, res.out[-2000:]))


class TvResult:
    def __init__(self, res, nlines):
        self.res = res
        self.nlines = nlines
        self.accepted = bool(re.search(r'<<\s*"ACCEPTED"', res.out)) and not re.search(r'<<\s*"REJECTED"', res.out)
        self.chkfails = res.printed("CHKFAIL")
        self.drifts = res.printed("DRIFT")
        # <<"MECHSTATS", predictions made, searches, searches drifted, searches left at an implementation-defined point>>
        self.mech = [0, 0, 0, 0]
        for m in re.finditer(r'<<\s*"MECHSTATS",\s*(\d+),\s*(\d+),\s*(\d+),\s*(\d+)', res.out):
            self.mech = [a + int(b) for a, b in zip(self.mech, m.groups())]
        self.rejected_at = None
        m = re.search(r'<<\s*"REJECTED",\s*(\d+)', res.out)
        if m:
            self.rejected_at = int(m.group(1))
        self.tool_problem = None
        if not self.accepted and self.rejected_at is None:
            self.tool_problem = res.out[-3000:]


def sanitize_trace(trace_file):
    """A process killed in the middle of a write leaves a partial last line: drop it."""
    data = open(trace_file, "rb").read()
    if data and not data.endswith(b"}\n"):
        cut = data.rfind(b"}\n")
        with open(trace_file, "wb") as f:
            f.write(data[:cut + 2] if cut >= 0 else b"")


def validate_trace(trace_tla, cfg, trace_file, timeout=900, strict=None, heap="4g", extra_env=None):
    """Trace validation: is trace_file a behaviour of trace_tla? (single worker, DFS queue)"""
    sanitize_trace(trace_file)
    env = {"TRACE": trace_file}
    if extra_env:
        env.update(extra_env)
    nlines = sum(1 for _ in open(trace_file))
    r = tlc(trace_tla, cfg, workers=1, timeout=timeout, env=env, dfs=True, heap=heap)
    tv = TvResult(r, nlines)
    if tv.tool_problem is not None:
        raise ToolError("trace validation of %s produced no verdict:\n%s" % (trace_file, tv.tool_problem))
    return tv


class TvMulti:
    """Merged result of validating the chunks of one trace in parallel TLC processes."""
    def __init__(self, parts, nlines, wall):
        self.parts = parts
        self.nlines = nlines
        self.accepted = all(p.accepted for p in parts)
        self.chkfails = [c for p in parts for c in p.chkfails]
        self.drifts = [d for p in parts for d in p.drifts]
        self.mech = [sum(p.mech[i] for p in parts) for i in range(4)]
        bad = [p for p in parts if not p.accepted]
        self.rejected_at = bad[0].rejected_at if bad else None
        self.rejected_file = bad[0].trace_file if bad else None
        self.res = parts[0].res
        self.res.wall = wall


def split_trace(trace_file, nparts, marker='"ev":"Reset"'):
    """Split an NDJSON trace at behaviour boundaries (Reset lines) into <= nparts files of similar cost.

    Behaviours are independent, so they may be regrouped: the biggest (in bytes: long behaviours at production constants
    carry table dumps and probes and are by far the most expensive to validate) are spread first, each to the part that
    is lightest so far; within a part the recorded order is kept."""
    lines = open(trace_file).read().splitlines(True)
    starts = [i for i, ln in enumerate(lines) if marker in ln]
    if not starts or starts[0] != 0:
        starts = [0] + starts
    ends = starts[1:] + [len(lines)]
    behs = [(s, e, sum(len(x) for x in lines[s:e])) for s, e in zip(starts, ends)]
    nparts = max(1, min(nparts, len(behs)))
    load = [0] * nparts
    member = [[] for _ in range(nparts)]
    for k in sorted(range(len(behs)), key=lambda i: -behs[i][2]):
        j = load.index(min(load))
        load[j] += behs[k][2] + 200
        member[j].append(k)
    files = []
    for j in range(nparts):
        if not member[j]:
            continue
        p = "%s.part%02d" % (trace_file, j)
        with open(p, "w") as f:
            for k in sorted(member[j]):
                f.writelines(lines[behs[k][0]:behs[k][1]])
        files.append(p)
    return files


def validate_trace_parallel(trace_tla, cfg, trace_file, nparts=8, timeout=1800, heap="3g"):
    """Behaviours in a trace are independent (each starts with Reset): validate chunks concurrently."""
    import concurrent.futures
    t0 = time.time()
    files = split_trace(trace_file, nparts)
    def one(f):
        tv = validate_trace(trace_tla, cfg, f, timeout=timeout, heap=heap)
        tv.trace_file = f
        return tv
    # many small parts, at most 14 TLC processes at a time: a part stays small enough for its heap and its time limit
    with concurrent.futures.ThreadPoolExecutor(max_workers=min(len(files), 14)) as ex:
        parts = list(ex.map(one, files))
    nlines = sum(p.nlines for p in parts)
    return TvMulti(parts, nlines, time.time() - t0)


# ------------------------------------------------------------------------------------- evidence

def sha_file(path):
    h = hashlib.sha1()
    with open(path, "rb") as f:
        for chunk in iter(lambda: f.read(1 << 20), b""):
            h.update(chunk)
    return h.hexdigest()


def count_distinct_behaviours(path):
    seen = set()
    n = 0
    with open(path) as f:
        for line in f:
            n += 1
            seen.add(hashlib.sha1(line.encode()).digest())
    return n, len(seen)


def head_lines(path, n=3, maxlen=600):
    out = []
    with open(path) as f:
        for i, line in enumerate(f):
            if i >= n:
                break
            out.append(line.strip()[:maxlen])
    return out


def write_evidence(pid, tier, level, coverage, assumptions, wall, violations):
    ev = {
        "property_id": pid,
        "tier": tier,
        "seed": seed(),
        "level": level,
        "coverage": coverage,
        "assumptions": assumptions,
        "wall_s": round(wall, 2),
        "violations": violations,
    }
    d = os.path.join(OUT, "evidence")
    os.makedirs(d, exist_ok=True)
    with open(os.path.join(d, pid + ".json"), "w") as f:
        json.dump(ev, f, indent=1, sort_keys=True)
    return ev


# -------------------------------------------------------------------------------- known findings

def known_findings():
    p = os.path.join(VERIF, "known_findings.json")
    if not os.path.exists(p):
        return {"findings": [], "fixed": []}
    with open(p) as f:
        return json.load(f)


def save_replay(pid, name, src_path=None, content=None):
    dst = os.path.join(replay_dir(), "%s-%s" % (pid, name))
    if src_path:
        shutil.copyfile(src_path, dst)
    else:
        with open(dst, "w") as f:
            f.write(content)
    return dst
