#!/usr/bin/env python3
"""Regenerates /verif/MANIFEST.json from the table below (single source of truth for the interface)."""
import json, os, sys
sys.path.insert(0, os.path.dirname(os.path.abspath(__file__)))
import props

V = os.path.dirname(os.path.dirname(os.path.abspath(__file__)))
ALL = ["C%02d" % i for i in range(1, 21)]

CLAIMS = {
 "C06": dict(
    category="model_checking",
    text="TLC checks the two-secret lazy-rotation design (spec/TokenStore.tla) against the history statement of C06 "
         "(>=10 min, <30 min, bound to the IP, never-issued refused) exhaustively over a boundary alphabet of time steps; "
         "the same statement (TokenStore!VerdictOK) then judges executions of the real TokenStore driven on the virtual "
         "clock by TLC-generated behaviours (exhaustive shallow + simulated deep), validated line by line by TLC. For unbounded time the "
         "time bounds of the mechanism are PROVED by an inductive invariant discharged with Apalache (spec/proof/TokenInd.tla). At wire "
         "level the get_peers / announce_peer traffic of real serving nodes is judged by the same statement (tokens bound to the IP, "
         "a refused announce stores nothing).",
    design_ref="DESIGN.md §5 C06, §3.4",
    note="Bounded: MC exhaustive to 5 (quick) / 7 (thorough) events; code bound only on the behaviours replayed. "
         "Trusts TLC, tokio's paused clock (hook H1) and the harness as transport.",
    technique="TLA+ spec + TLC model checking; model-based test generation; TLC trace validation of the real token store"),
 "C07": dict(
    category="model_checking",
    text="TLC checks the expiry-queue design (spec/PeerStore.tla) against the history statement of C07 (exactly the pairs "
         "acknowledged within 24 h, duplicate-free, <=500, refusal is a no-op, renewal succeeds when full, expiry frees capacity) "
         "exhaustively for CAP=3; the same statement (PeerStore!FindOK/AddOK) judges executions of the real AnnounceStorage at "
         "CAP=500 over days of virtual time, driven by TLC-generated small behaviours and seeded bulk behaviours, validated by TLC.",
    design_ref="DESIGN.md §5 C07, §3.5",
    note="Bounded: MC exhaustive for CAP=3 to 5/7 events; production capacity only on the replayed behaviours. Component level; "
         "the wire path (announced/implied port, family filter, error 202) is bound by the node-level server traces (C05).",
    technique="TLA+ spec + TLC model checking; model-based test generation; TLC trace validation of the real peer store"),
 "C08": dict(
    category="model_checking",
    text="TLC checks the bucket/table mechanism (spec/RoutingTable.tla: slot replacement, update rules, splitting) against the "
         "statement of C08 (spec/TableProps.tla: shape invariants + offer rules) exhaustively for K=2 / 4-bit ids over every "
         "interleaving of offers, queries and time; the same statements are then evaluated by TLC on the dump of the REAL "
         "RoutingTable (K=8, 160 buckets) after every operation of all small-model behaviours and of seeded long behaviours with "
         "clustered ids (deep splits, evictions), and the mechanism's predicted dump is compared slot by slot (drift).",
    design_ref="DESIGN.md §5 C08, §3.6",
    note="Bounded: MC exhaustive to 4 (quick) / 5 (thorough, plus simulation to depth 14) events; the code is bound on the "
         "replayed behaviours. Trusts TLC, hook H2 wrappers, the harness as transport.",
    technique="TLA+ spec + TLC model checking; model-based test generation; TLC trace validation of the real routing table"),
 "C09": dict(
    category="model_checking",
    text="The closest-node walk (RoutingTable!Closest) is checked by TLC for all 16 targets in every reachable state of the small "
         "table model against C09 (distinct, only live, min(8, n) entries, all longer-prefix nodes included, every live node "
         "enumerated once); on the real table TLC evaluates the same statement on the result of closest_nodes for the id of every "
         "operation, the local id, its single-bit flips and random targets, against the dumped table at that instant.",
    design_ref="DESIGN.md §5 C09, §3.6",
    note="Component level: the handler's filter(family).take(8) composition is mirrored in the trace specification; the wire "
         "level is bound by the server traces. Bounded as C08.",
    technique="TLA+ spec + TLC model checking; TLC trace validation of closest_nodes on the real routing table"),
 "C10": dict(
    category="model_checking",
    text="C10 is stated over a per-contact history of events (answered, named by hearsay, queried us, was queried, time) in "
         "spec/TableProps.tla; TLC checks the status mechanism of spec/RoutingTable.tla against it exhaustively around the "
         "15-minute boundary, and judges the standing the REAL code reports (dump status, load_contacts, counts) after every "
         "operation of the replayed behaviours by the same history statement.",
    design_ref="DESIGN.md §5 C10, §3.6",
    note="'until it answers again' is read as 'or is admitted anew by a later mention' (DESIGN §5 C10). Bounded as C08.",
    technique="TLA+ spec + TLC model checking; history monitor evaluated by TLC on traces of the real routing table"),
 "C19": dict(
    category="model_checking",
    text="TLC checks the block-shuffle generators (spec/TxnIds.tla) for small constants over every choice of block permutation "
         "through two wraps (ids fit their field, prefix stable, first 2^24 ids distinct, live activities have distinct prefixes) "
         "and shows that a block length not dividing the id space breaks the design; the real generators are then run at "
         "production constants through the 2^24 wrap (16.8 M ids) and TLC checks the per-block reduction against the statement.",
    design_ref="DESIGN.md §5 C19, §3.7",
    note="The reduction of 16.8 M ids to 8 195 block summaries is done in Rust and trusted; the 2^40 action-id wrap is covered by the "
         "model only; on-the-wire discipline is checked on node-level traces.",
    technique="TLA+ spec + TLC model checking; TLC trace validation of a reduced run of the real id generators"),
 "C20": dict(
    category="exploration",
    text="An independent executable TLA+ transcription of BEP42 (spec/Bep42.tla: bit-serial CRC32-C, masks, 21-bit prefix rule, "
         "pinned by ASSUME to the five published vectors) is the oracle; TLC evaluates it on (address, id) pairs produced by the "
         "real InfoHash::from_ip over a stratified enumeration of IPv4 addresses (thorough: all 2^20 classes of mask-relevant bits) "
         "and random IPv6 prefixes. A pure numeric function: agreement with an oracle on an enumeration, not a proof.",
    design_ref="DESIGN.md §5 C20, §3.3",
    note="Sampling over the random bits of from_ip; the oracle's faithfulness to BEP42 rests on the published vectors.",
    technique="executable TLA+ oracle evaluated by TLC on recorded outputs of the real function"),
 "C05": dict(
    category="model_checking",
    text="spec/Server.tla (one operator per query kind composing routing table, token store and peer store) is checked by TLC "
         "against the reply rules of C05 (exactly one reply, to the source, id echoed, shape per method, 203/202, read-only silent) "
         "over every interleaving of queries, non-queries and time for a small node; real serving / read-only nodes (IPv4 and IPv6) "
         "on the simulated network then receive seeded queries of every kind / want / port / token / transaction-id combination "
         "interleaved with responses, errors and garbage, and TLC checks EVERY handler step of the recording against the same rules "
         "(spec/trace/NodeTrace.tla), including that a query is never swallowed by a pending bootstrap exchange.",
    design_ref="DESIGN.md §5 C05, §3.8",
    note="Bounded MC (4/5 events). The recording relies on hook H3 (step brackets) to attribute sends to the datagram that caused "
         "them, and on the harness' independent bencode reader.",
    technique="TLA+ spec + TLC model checking; TLC trace validation of recorded executions of real nodes"),
 "C12": dict(
    category="model_checking",
    text="Frame conditions of C12 (a query never admits its sender; a response whose transaction id the node never used changes no "
         "contacts; nobody is reported good unless it answered or queried within 15 min; router / own id never admitted) are checked by "
         "TLC in MC_Server and MC_Table at design level and, on recordings of real nodes, after every handler step by comparing the "
         "table dumped before and after (spec/trace/NodeTrace.tla).",
    design_ref="DESIGN.md §5 C12",
    note="'a prefix the node never used' is read off the wire (prefixes of the queries the node has sent). Responses forged against a "
         "RUNNING search are exercised by the lookup scenarios.",
    technique="TLA+ spec + TLC model checking; TLC trace validation of recorded executions of real nodes"),
 "C13": dict(
    category="model_checking",
    text="spec/Wire.tla is an executable TLA+ transcription of the BEP3/5/32 encoding (pinned to the BEP5 examples). TLC enumerates "
         "the message space over adversarial field domains (mc/MC_Wire.tla, 1516 messages) and every one is built with the real types, "
         "encoded by the real encoder and compared byte for byte with Wire!Encode by TLC; seeded random messages over the whole field "
         "space are checked the same way; every message is also decoded from its canonical, key-permuted and unknown-key encodings and "
         "the result compared with the original; ill-formed variants (argument/method mismatch, 19/21-byte ids, ragged node lists) "
         "must be rejected. Every variant datagram is additionally read by the specification's own decoder (spec/WireParse.tla: bencode "
         "parser + KRPC interpreter with the acceptance rules of C13), which must agree with what the variant is meant to denote.",
    design_ref="DESIGN.md §5 C13, §3.2",
    note="Agreement with an executable oracle on the cases explored; an input-space property of a codec is not something model "
         "checking proves. The variants are produced by the harness' own bencode writer (trusted transport).",
    technique="executable TLA+ wire specification; TLC-enumerated and random messages through the real codec; TLC trace validation"),
 "C14": dict(
    category="fault_enumeration",
    text="Supervised execution of a structure-aware mutation corpus (truncation at every offset, every length prefix x 23 magnitudes "
         "up to 2^128, integers at the limits, wrong types in every tree position, nesting to the full datagram length, random "
         "flips/splices, every fixed-size field of queries and responses at every length 0..90) through the real decoder on a 2 MiB stack under a counting allocator, and through a real serving node whose "
         "recording is validated by TLC (it must keep answering queries and complete every API call); searching nodes on hostile "
         "networks (solicited answers with hostile node lists: own id, duplicates, one id at two addresses).",
    design_ref="DESIGN.md §5 C14",
    note="Memory safety / resource use cannot be established by a TLA+ model: fault enumeration, not proof. The TLA+ part is the "
         "node-level trace specification and the expected 'no reply to garbage' rule.",
    technique="spec-guided fault enumeration with a supervised decode worker; TLC trace validation of a flooded real node"),
 "C17": dict(
    category="model_checking",
    text="The size model of spec/Wire.tla (pinned to Wire!Encode by ASSUME) is evaluated by TLC for every reply shape (0..500 values "
         "of either family x 0..8 nodes per family x transaction ids up to 32 bytes) and every query shape: the only datagrams that "
         "can exceed 1500 bytes are get_peers replies that are too long because of `values` (the recorded finding; thresholds 148/175 "
         "IPv4 and 51 IPv6 peers are printed). On recordings of real nodes TLC checks the length of EVERY datagram sent; the known "
         "class (too long only because of values that the store is entitled to return -- C07's ValuesOK) is reported as KNOWN-FINDING, "
         "anything else is a violation, including replies inflated by peers that should have expired (day-long 'stale swarm' recordings).",
    design_ref="DESIGN.md §5 C17, §6",
    note="The finding is recorded, not repaired (capping `values` contradicts C07).",
    technique="TLA+ size model evaluated by TLC; TLC trace validation of every datagram sent by real nodes"),
 "C01": dict(
    category="model_checking",
    text="Design level: mc/MC_E2E.tla composes the token-store and peer-store mechanisms of three serving nodes (announce = get_peers then announce_peer with the token, search = get_peers to every other node) and TLC checks over every interleaving and a time alphabet from seconds to 25 h that a search finds every other announcer within 24 h of its last announce and none after. Binding: 2..9 REAL serving nodes that all know each other run on the simulated network (virtual clock, per-datagram latency below 1 s, IPv4/IPv6, random and adversarially clustered ids, announce port set or not); announcing searches and searches by every other node in random order with gaps from seconds to more than 24 h. TLC checks the recording against spec/trace/NodeTrace.tla: from the announces each node ACKNOWLEDGED (its own reply, checked by the server rules) it derives when every other node's search must, and must no longer, yield the announcer's contact (IP with announce port or UDP source port).",
    design_ref='DESIGN.md §5 C01',
    note="Long runs are recorded in projection mode (only get_peers/announce_peer steps and search API lines). 'Found' is demanded for searches that start at least 1 s after the announcing search ended (its announce datagrams travel for less than 1 s).",
    technique='TLA+ spec + TLC model checking (where a design-level model exists); TLC trace validation of recorded executions of real nodes'),
 "C02": dict(
    category="model_checking",
    text='spec/Lookup.tla (spec/LookupCore.tla -- the search mechanism as pure step operators: sorted candidates, ALPHA/BETA picks, distance to beat, end-game, late answers, announce -- plus 1.5 s time-outs and an environment) is checked by TLC over EVERY environment of a cooperative family (all starting sets, all answer delays 0/999 ms, hence all arrival orders) for safety, the closest-nodes announce property and termination under fairness; a variant whose end-game skips unqueried nodes must be caught. Binding: one real node searches cooperative oracle networks of 1..100 (thorough: 1000) scripted nodes that answer within one second with the truly closest nodes, tokens and stored peers. TLC follows every get_peers / response / yield / announce_peer of the recording: at the end of an announcing search the set of announce destinations must equal the 8 nodes of the declared universe closest to the info-hash (XOR order computed in TLA+), each announce carrying the token that very node sent, the searched hash, the own id and the configured / implied port; every peer of every consumed answer must have been delivered once per occurrence. The same LookupCore operators run alongside every recorded search and predict the destination of every get_peers and announce_peer, step by step (reported as drift, never as a violation).',
    design_ref='DESIGN.md §5 C02, §3.9',
    note='Universe placement: uniform / clustered around the target / around the searcher; serving and read-only searcher.',
    technique='TLA+ spec + TLC model checking (where a design-level model exists); TLC trace validation of recorded executions of real nodes'),
 "C03": dict(
    category="model_checking",
    text='Design level: MC_Lookup (coop and timing families) checks YieldJustified / AnnounceOK on spec/Lookup.tla. Binding: the same recordings on hostile networks (loss, duplication, delays up to 5 s, forged responses: replayed id, right id from another source, id one byte too long, changed id, ids of earlier queries, node lists naming the searcher / duplicates / unreachable nodes; two concurrent searches). TLC keeps, per search, the outstanding queries and a budget of peers from consumed answers: every yielded address must come out of that budget; every announce must go to an address that answered THIS search with a token and carry its latest token, the searched hash, at most 8 per search, none when not requested.',
    design_ref='DESIGN.md §5 C03',
    note='A query stays outstanding until it is answered or the search ends (after the C01 repair the code accepts late answers as well); time-outs are read from hook H3 timer steps.',
    technique='TLA+ spec + TLC model checking (where a design-level model exists); TLC trace validation of recorded executions of real nodes'),
 "C04": dict(
    category="model_checking",
    text='Design level: spec/Lookup.tla is checked by TLC over every environment of the timing family (each node answers after 0/1499/1500/1501/2999 ms or never, truthful lists or chains, unsendable datagrams): never an early close, closed within 1.5 s per node + 3 s, 3 s when silent, immediate when nothing can be asked, termination under fairness. Binding: recordings on timing networks (total silence, answers after 0/1499/1500/1501/2999 ms, error replies, garbage, chains in which every answer names one closer node, send failures). TLC checks on every search: time-outs fire 1.5 s after the query, the end-game starts only when no query is outstanding, the search ends only when no unanswered query is younger than 1.5 s, no later than 1.5 s per distinct node it was told about plus 3 s, exactly 3 s after the first query when nobody answered, immediately when no good node is known, and every search has ended when the run ends.',
    design_ref='DESIGN.md §5 C04',
    note="'No good node => immediate close' is checked for searches started after the initial bootstrap (scope note in DESIGN §5 C04). Slack 50 ms for the timer wheel.",
    technique='TLA+ spec + TLC model checking (where a design-level model exists); TLC trace validation of recorded executions of real nodes'),
 "C11": dict(
    category="model_checking",
    text='Design level: spec/Maintenance.tla (the status rules of RoutingTable.tla driven by the 6 s refresh and the 5 s re-bootstrap passes, discrete-event time) is checked by TLC over every partition of the contacts into always-answering / silent-from-t (0 s, 10 s, 14 min 58 s, 15 min), both regimes, round trips of 2 ms and 1998 ms, 40 min (thorough: 2 h): ResponsiveNeverLost, QuestionableAtMost30s, SilentGoneBy; the pinned bootstrap pass (asks a contact again while unanswered) must be caught. Binding: One real node with 1..12 scripted contacts (every partition into always-answering and silent-from-t, given directly or learned by hearsay, with and without searches, one contact unreachable for sending) runs for 1 h (thorough: 4 h) of virtual time; load_contacts() is sampled every 5 s and TLC checks on the recording: an always-answering contact is never missing once seen, is never questionable for more than 30 s (+5 s sampling slack), and a silent one is gone 20 min after its last answer or 5 min after it was last named.',
    design_ref='DESIGN.md §5 C11',
    note='Premises: loss-free network, no bucket full (at most 12 contacts in distinct buckets).',
    technique='TLA+ spec + TLC model checking (where a design-level model exists); TLC trace validation of recorded executions of real nodes'),
 "C15": dict(
    category="model_checking",
    text='Design level: spec/Handler.tla (event loop: timers, refresh chain, waiters, early-search queue) is checked by TLC over every interleaving of re-bootstraps, timers, waiters and searches (WaitersToldOnSuccess). Binding: Real nodes are started with builder configurations drawn from a seed (no contacts; 1..30 plain nodes some silent / erroring / answering garbage; a contact given both as node and as router; duplicated routers), outages from 0 s to 2 h with flapping, and 1..6 bootstrapped() callers registered before, during and after outages and re-bootstraps. TLC checks: the node stays alive (every API call completes), no contacts => immediately bootstrapped and no query is ever sent, bootstrapped() never resolves before a contact answered, and for plain-node configurations every waiter is told within 11 minutes of the network becoming reachable.',
    design_ref='DESIGN.md §5 C15',
    note='Routers are IP literals (no DNS in the sandbox).',
    technique='TLA+ spec + TLC model checking (where a design-level model exists); TLC trace validation of recorded executions of real nodes'),
 "C16": dict(
    category="model_checking",
    text='Design level: spec/Handler.tla is checked by TLC (NoLookupBeforeInitialBootstrap, QueuedAreStarted); the pinned-tree policy QueueEarly=FALSE must be caught. Binding: search() is called before the first datagram, during the initial round, during the bucket phase, during the back-off after a failed first attempt and after completion (1..4 early searches, the same hash with and without announce). TLC checks on the recording: a search is queued only before the initial bootstrap completed, starts only after it, is never closed without having been carried out, and an early non-announcing search yields the same multiset of peers as its twin issued right after bootstrapped() resolved.',
    design_ref='DESIGN.md §5 C16',
    note='The oracle network is static, so twin searches are comparable.',
    technique='TLA+ spec + TLC model checking (where a design-level model exists); TLC trace validation of recorded executions of real nodes'),
 "C18": dict(
    category="model_checking",
    text='Design level: spec/Handler.tla is checked by TLC (AtMostOneRefreshTimer, RoundsBounded) over every interleaving of re-bootstraps and timers; the pinned-tree policy CancelPending=FALSE must be caught. Binding: The maintenance recordings (hundreds to thousands of re-bootstrap cycles, send failures) carry one RefreshRound line per round (hook H3) and the BootState line of the worker per completion; TLC checks round by round that a timer round comes at least 6 s after the previous round and that a round started by the bootstrap notification has a completion of its own, and in sliding windows of 30 s, 2 min and 20 min that the number of rounds never exceeds one per 6 s plus one plus the number of completions in the window, and that every round is caused by the refresh timer or by a bootstrap completion.',
    design_ref='DESIGN.md §5 C18',
    note='A round that pings nobody is invisible on the wire, hence the hook.',
    technique='TLA+ spec + TLC model checking (where a design-level model exists); TLC trace validation of recorded executions of real nodes'),
}

def main():
    checks = []
    for pid in ALL:
        if pid not in CLAIMS or not hasattr(props, "check_" + pid):
            continue
        c = CLAIMS[pid]
        checks.append({
            "property_id": pid,
            "quick_cmd": "bin/check %s quick" % pid,
            "thorough_cmd": "bin/check %s thorough" % pid,
            "evidence_file": "evidence/%s.json" % pid,
            "replay_cmd_template": "bin/check %s quick --replay {path}" % pid,
            "engine": "tla-mbv",
            "level_claimed": {"category": c["category"], "text": c["text"], "design_ref": c["design_ref"]},
            "level_note": c["note"],
            "technique": c["technique"],
        })
    na = [{"property_id": p, "reason": "check not built yet in this round (planned, see DESIGN.md §5 %s); not a limit of the technique" % p}
          for p in ALL if p not in [c["property_id"] for c in checks]]
    m = {
        "version": 1,
        "setup_cmd": "cd harness && cargo build --release --offline",
        "hooks": {
            "guard": "--cfg btdht_verif",
            "enable": "harness/.cargo/config.toml sets rustflags = [\"--cfg\", \"btdht_verif\"]; btdht is a path dependency (/repo) of the harness crate, so every check rebuilds /repo's working tree with the hooks on",
            "baseline_off_cmd": "cd /repo && cargo test --workspace --no-fail-fast --offline",
            "source_commits": json.load(open(os.path.join(V, "hooks.json")))["commits"],
            "add_only": True,
        },
        "engines": [{
            "name": "tla-mbv", "path": "bin/check",
            "serves_properties": [c["property_id"] for c in checks],
            "kind_free_text": "explicit TLA+ specification (spec/*.tla) checked with TLC (MC), bound to the code by model-based test generation from TLC and by TLC trace validation of executions of the real code recorded by the Rust harness (harness/)",
        }],
        "checks": checks,
        "not_applicable": na,
        "notes": "See DESIGN.md. known_findings.json lists genuine defects (fixed: / finding:).",
    }
    json.dump(m, open(os.path.join(V, "MANIFEST.json"), "w"), indent=1)
    print("MANIFEST.json: %d checks, %d not_applicable" % (len(checks), len(na)))

if __name__ == "__main__":
    main()
