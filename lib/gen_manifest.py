#!/usr/bin/env python3
"""Regenerates /verif/MANIFEST.json from the table below (single source of truth for the interface)."""
import json, os, sys
sys.path.insert(0, os.path.dirname(os.path.abspath(__file__)))
import props

V = os.path.dirname(os.path.dirname(os.path.abspath(__file__)))
ALL = ["C%02d" % i for i in range(1, 21)]

CLAIMS = {
 "C06": dict(
    category="model_checking",
    text="TLC checks the two-secret lazy-rotation design (spec/TokenStore.tla) against the history statement of C06 "
         "(>=10 min, <30 min, bound to the IP, never-issued refused) exhaustively over a boundary alphabet of time steps; "
         "the same statement (TokenStore!VerdictOK) then judges executions of the real TokenStore driven on the virtual "
         "clock by TLC-generated behaviours (exhaustive shallow + simulated deep), validated line by line by TLC.",
    design_ref="DESIGN.md §5 C06, §3.4",
    note="Bounded: MC exhaustive to 5 (quick) / 7 (thorough) events; code bound only on the behaviours replayed. "
         "Trusts TLC, tokio's paused clock (hook H1) and the harness as transport.",
    technique="TLA+ spec + TLC model checking; model-based test generation; TLC trace validation of the real token store"),
 "C07": dict(
    category="model_checking",
    text="TLC checks the expiry-queue design (spec/PeerStore.tla) against the history statement of C07 (exactly the pairs "
         "acknowledged within 24 h, duplicate-free, <=500, refusal is a no-op, renewal succeeds when full, expiry frees capacity) "
         "exhaustively for CAP=3; the same statement (PeerStore!FindOK/AddOK) judges executions of the real AnnounceStorage at "
         "CAP=500 over days of virtual time, driven by TLC-generated small behaviours and seeded bulk behaviours, validated by TLC.",
    design_ref="DESIGN.md §5 C07, §3.5",
    note="Bounded: MC exhaustive for CAP=3 to 5/7 events; production capacity only on the replayed behaviours. Component level; "
         "the wire path (announced/implied port, family filter, error 202) is bound by the node-level server traces (C05).",
    technique="TLA+ spec + TLC model checking; model-based test generation; TLC trace validation of the real peer store"),
 "C08": dict(
    category="model_checking",
    text="TLC checks the bucket/table mechanism (spec/RoutingTable.tla: slot replacement, update rules, splitting) against the "
         "statement of C08 (spec/TableProps.tla: shape invariants + offer rules) exhaustively for K=2 / 4-bit ids over every "
         "interleaving of offers, queries and time; the same statements are then evaluated by TLC on the dump of the REAL "
         "RoutingTable (K=8, 160 buckets) after every operation of all small-model behaviours and of seeded long behaviours with "
         "clustered ids (deep splits, evictions), and the mechanism's predicted dump is compared slot by slot (drift).",
    design_ref="DESIGN.md §5 C08, §3.6",
    note="Bounded: MC exhaustive to 4 (quick) / 5 (thorough, plus simulation to depth 14) events; the code is bound on the "
         "replayed behaviours. Trusts TLC, hook H2 wrappers, the harness as transport.",
    technique="TLA+ spec + TLC model checking; model-based test generation; TLC trace validation of the real routing table"),
 "C09": dict(
    category="model_checking",
    text="The closest-node walk (RoutingTable!Closest) is checked by TLC for all 16 targets in every reachable state of the small "
         "table model against C09 (distinct, only live, min(8, n) entries, all longer-prefix nodes included, every live node "
         "enumerated once); on the real table TLC evaluates the same statement on the result of closest_nodes for the id of every "
         "operation, the local id, its single-bit flips and random targets, against the dumped table at that instant.",
    design_ref="DESIGN.md §5 C09, §3.6",
    note="Component level: the handler's filter(family).take(8) composition is mirrored in the trace specification; the wire "
         "level is bound by the server traces. Bounded as C08.",
    technique="TLA+ spec + TLC model checking; TLC trace validation of closest_nodes on the real routing table"),
 "C10": dict(
    category="model_checking",
    text="C10 is stated over a per-contact history of events (answered, named by hearsay, queried us, was queried, time) in "
         "spec/TableProps.tla; TLC checks the status mechanism of spec/RoutingTable.tla against it exhaustively around the "
         "15-minute boundary, and judges the standing the REAL code reports (dump status, load_contacts, counts) after every "
         "operation of the replayed behaviours by the same history statement.",
    design_ref="DESIGN.md §5 C10, §3.6",
    note="'until it answers again' is read as 'or is admitted anew by a later mention' (DESIGN §5 C10). Bounded as C08.",
    technique="TLA+ spec + TLC model checking; history monitor evaluated by TLC on traces of the real routing table"),
 "C19": dict(
    category="model_checking",
    text="TLC checks the block-shuffle generators (spec/TxnIds.tla) for small constants over every choice of block permutation "
         "through two wraps (ids fit their field, prefix stable, first 2^24 ids distinct, live activities have distinct prefixes) "
         "and shows that a block length not dividing the id space breaks the design; the real generators are then run at "
         "production constants through the 2^24 wrap (16.8 M ids) and TLC checks the per-block reduction against the statement.",
    design_ref="DESIGN.md §5 C19, §3.7",
    note="The reduction of 16.8 M ids to 8 195 block summaries is done in Rust and trusted; the 2^40 action-id wrap is covered by the "
         "model only; on-the-wire discipline is checked on node-level traces.",
    technique="TLA+ spec + TLC model checking; TLC trace validation of a reduced run of the real id generators"),
 "C20": dict(
    category="exploration",
    text="An independent executable TLA+ transcription of BEP42 (spec/Bep42.tla: bit-serial CRC32-C, masks, 21-bit prefix rule, "
         "pinned by ASSUME to the five published vectors) is the oracle; TLC evaluates it on (address, id) pairs produced by the "
         "real InfoHash::from_ip over a stratified enumeration of IPv4 addresses (thorough: all 2^20 classes of mask-relevant bits) "
         "and random IPv6 prefixes. A pure numeric function: agreement with an oracle on an enumeration, not a proof.",
    design_ref="DESIGN.md §5 C20, §3.3",
    note="Sampling over the random bits of from_ip; the oracle's faithfulness to BEP42 rests on the published vectors.",
    technique="executable TLA+ oracle evaluated by TLC on recorded outputs of the real function"),
}

def main():
    checks = []
    for pid in ALL:
        if pid not in CLAIMS or not hasattr(props, "check_" + pid):
            continue
        c = CLAIMS[pid]
        checks.append({
            "property_id": pid,
            "quick_cmd": "bin/check %s quick" % pid,
            "thorough_cmd": "bin/check %s thorough" % pid,
            "evidence_file": "evidence/%s.json" % pid,
            "replay_cmd_template": "bin/check %s quick --replay {path}" % pid,
            "engine": "tla-mbv",
            "level_claimed": {"category": c["category"], "text": c["text"], "design_ref": c["design_ref"]},
            "level_note": c["note"],
            "technique": c["technique"],
        })
    na = [{"property_id": p, "reason": "check not built yet in this round (planned, see DESIGN.md §5 %s); not a limit of the technique" % p}
          for p in ALL if p not in [c["property_id"] for c in checks]]
    m = {
        "version": 1,
        "setup_cmd": "cd harness && cargo build --release --offline",
        "hooks": {
            "guard": "--cfg btdht_verif",
            "enable": "harness/.cargo/config.toml sets rustflags = [\"--cfg\", \"btdht_verif\"]; btdht is a path dependency (/repo) of the harness crate, so every check rebuilds /repo's working tree with the hooks on",
            "baseline_off_cmd": "cd /repo && cargo test --workspace --no-fail-fast --offline",
            "source_commits": json.load(open(os.path.join(V, "hooks.json")))["commits"],
            "add_only": True,
        },
        "engines": [{
            "name": "tla-mbv", "path": "bin/check",
            "serves_properties": [c["property_id"] for c in checks],
            "kind_free_text": "explicit TLA+ specification (spec/*.tla) checked with TLC (MC), bound to the code by model-based test generation from TLC and by TLC trace validation of executions of the real code recorded by the Rust harness (harness/)",
        }],
        "checks": checks,
        "not_applicable": na,
        "notes": "See DESIGN.md. known_findings.json lists genuine defects (fixed: / finding:).",
    }
    json.dump(m, open(os.path.join(V, "MANIFEST.json"), "w"), indent=1)
    print("MANIFEST.json: %d checks, %d not_applicable" % (len(checks), len(na)))

if __name__ == "__main__":
    main()
