"""Per-property checks.  Each check_Cxx(ctx) runs: MC of the design (TLC, exhaustive or simulate),
a deliberately broken variant of the model that MUST be caught (vacuity guard), and the binding
of the specification to the code (MBT generation -> replay in the real code -> trace validation
by TLC, and/or recorded executions -> trace validation)."""
import json
import re
import os
import time

import vlib
from vlib import ToolError, log


class Ctx:
    def __init__(self, pid, tier, replay=None):
        self.pid = pid
        self.tier = tier
        self.quick = tier != "thorough"
        self.replay = replay
        self.violations = []   # (description, replay path)
        self.known = []        # known-finding descriptions met in this run
        self.cov = {"states": 0, "transitions": 0, "traces_validated_against_impl": 0,
                    "samples": [], "evaluations": 0, "distinct_nontrivial": 0, "rule": "",
                    "checker_cmd": "", "mc_runs": [], "tv_runs": [], "drift": 0}
        self.assumptions = []
        self.level = "model_checking"
        self.work = vlib.workdir(pid)

    # -- bookkeeping ----------------------------------------------------------------------
    def add_mc(self, name, res):
        self.cov["states"] += res.distinct
        self.cov["transitions"] += res.generated
        self.cov["mc_runs"].append({"config": name, "distinct_states": res.distinct,
                                    "states_generated": res.generated, "depth": res.depth,
                                    "wall_s": round(res.wall, 1)})
        if not self.cov["checker_cmd"]:
            self.cov["checker_cmd"] = res.cmd

    def add_tv(self, name, tv, behaviours, distinct):
        self.cov["traces_validated_against_impl"] += behaviours
        self.cov["evaluations"] += behaviours
        self.cov["distinct_nontrivial"] += distinct
        self.cov["drift"] += len(tv.drifts)
        mech = getattr(tv, "mech", [0, 0, 0, 0])
        if mech[0]:
            mp = self.cov.setdefault("search_mechanism_predictions", {"steps_predicted_by_LookupCore": 0, "searches": 0,
                                                                      "searches_drifted": 0, "searches_through_a_std_binary_search_tie": 0})
            for k, v in zip(list(mp), mech):
                mp[k] += v
        self.cov["tv_runs"].append({"trace": name, "lines": tv.nlines, "behaviours": behaviours,
                                    "distinct": distinct, "accepted": tv.accepted,
                                    "drift_reports": len(tv.drifts), "wall_s": round(tv.res.wall, 1)})

    def violation(self, desc, path):
        self.violations.append((desc, path))

    def write_evidence(self, wall, tool_error=None):
        cov = dict(self.cov)
        if tool_error:
            cov["tool_error"] = tool_error
        if not cov["samples"]:
            cov["samples"] = ["(none: run ended before any case was produced)"]
        if cov["states"] == 0 or cov["transitions"] == 0:
            # no design-level model-checking stage in this run: report the trace-validation counts only
            cov.pop("states"); cov.pop("transitions")
        cov["evaluations"] = max(cov["evaluations"], 1)
        cov["distinct_nontrivial"] = max(cov["distinct_nontrivial"], 0)
        vlib.write_evidence(self.pid, self.tier, self.level, cov, self.assumptions, wall,
                            len(self.violations))

    def cfg(self, name, text):
        p = os.path.join(self.work, name)
        with open(p, "w") as f:
            f.write(text)
        return p

    def path(self, name):
        return os.path.join(self.work, name)


def tv_verdict(ctx, tv, trace_file, what):
    """Turn a trace-validation result into a verdict for ctx.pid."""
    if tv.accepted:
        return True
    # rejected: the failing constraint(s) are in CHKFAIL lines; keep the trace as replay
    name = "%s-%s.ndjson" % (what, time.strftime("%H%M%S"))
    dst = vlib.save_replay(ctx.pid, name, src_path=getattr(tv, "rejected_file", None) or trace_file)
    why = "; ".join(tv.chkfails[:3]) or "trace rejected at line %s" % tv.rejected_at
    ctx.violation("%s: %s (line %s of %s)" % (what, why, tv.rejected_at, dst), dst)
    return False


# =========================================================================================== C06

TOKEN_CFG = """SPECIFICATION Spec
CONSTANTS
  ROT = 600000
  IPS = {%(ips)s}
  DELTAS = {%(deltas)s}
  MAXSTEPS = %(steps)d
  KEEP_BOTH = %(keep)s
  GEN = %(gen)s
INVARIANT VerdictsOK
%(emit)s
CHECK_DEADLOCK FALSE
"""
TOKEN_DELTAS = "1, 999, 1000, 599000, 599999, 600000, 1199999, 1200000, 1800000"


def check_C06(ctx):
    ctx.assumptions += [
        "TLC and the CommunityModules Json/IOUtils modules are correct",
        "tokio's paused clock drives crate::time::Instant (hook H1)",
        "the harness transports observations faithfully (vh tokens)",
        "MC is exhaustive only up to MAXSTEPS events over the boundary alphabet of time steps",
        "the time bounds (>= 10 min, < 30 min) of the two-secret mechanism are additionally PROVED for unbounded time and arbitrary time "
        "steps by an inductive invariant checked with Apalache (spec/proof/TokenInd.tla: a restatement of the mechanism over integers, one "
        "arbitrary tracked token); this says nothing about the code beyond what the trace validation binds",
    ]
    q = ctx.quick
    ips = '"a4", "b4", "c6"'
    # 1. design-level: mechanism vs. history statement, exhaustive
    res = vlib.tlc("mc/MC_Token.tla", ctx.cfg("mc.cfg", TOKEN_CFG % dict(
        ips=ips, deltas=TOKEN_DELTAS, steps=5 if q else 6, keep="TRUE", gen="FALSE", emit="")),
        workers=8 if q else 16, timeout=600 if q else 3000, heap="8g" if q else "24g")
    vlib.require_mc_ok(res, "MC_Token")
    ctx.add_mc("MC_Token(steps=%d)" % (5 if q else 6), res)
    # 2. vacuity guard: a mechanism that forgets the previous secret must be caught
    neg = vlib.tlc("mc/MC_Token.tla", ctx.cfg("neg.cfg", TOKEN_CFG % dict(
        ips=ips, deltas=TOKEN_DELTAS, steps=5, keep="FALSE", gen="FALSE", emit="")), workers=4, timeout=600)
    vlib.require_mc_fails(neg, "VerdictsOK", "KEEP_BOTH=FALSE")
    # 2b. unbounded time: the inductive invariant of spec/proof/TokenInd.tla (one arbitrary tracked token, arbitrary time steps)
    #     discharged by Apalache: Init => IndInv, IndInv /\ Next => IndInv', and IndInv contains the statement
    for init, length in (("Init", 0), ("IndInit", 1)):
        ok, out, wall, cmd = vlib.apalache("proof/TokenInd.tla", init, "IndInv", length)
        if not ok:
            raise ToolError("the inductive invariant of the token mechanism was not discharged (%s, length %d):\n%s" % (init, length, out[-1500:]))
        ctx.cov.setdefault("inductive_invariant", []).append({"obligation": "%s => IndInv%s" % (init, "" if length == 0 else "'  (one step of Next)"),
                                                               "checker_cmd": cmd, "wall_s": round(wall, 1), "outcome": "NoError"})
    # 3. binding: behaviours of the model replayed against the real TokenStore
    beh = ctx.path("behaviours.ndjson")
    g1 = vlib.tlc("mc/MC_Token.tla", ctx.cfg("gen1.cfg", TOKEN_CFG % dict(
        ips=ips, deltas=TOKEN_DELTAS, steps=3, keep="TRUE", gen="TRUE", emit="INVARIANT Emit")),
        workers=1, timeout=1200)
    n1 = vlib.extract_replays(g1, beh + ".1")
    depth = 30 if q else 60
    g2 = vlib.tlc("mc/MC_Token.tla", ctx.cfg("gen2.cfg", TOKEN_CFG % dict(
        ips=ips, deltas=TOKEN_DELTAS + ", 30000, 300000", steps=depth, keep="TRUE", gen="TRUE", emit="INVARIANT Emit")),
        workers=1, timeout=1200, simulate=40 if q else 200, depth=depth + 1, seed_=vlib.seed())
    n2 = vlib.extract_replays(g2, beh + ".2")
    with open(beh, "w") as f:
        for p in (beh + ".1", beh + ".2"):
            f.write(open(p).read())
    if n1 == 0 or n2 == 0:
        raise ToolError("behaviour generation produced nothing (%d, %d)" % (n1, n2))
    trace = ctx.path("trace.ndjson")
    vlib.vh(["tokens", "--in", beh, "--out", trace])
    tv = vlib.validate_trace_parallel("trace/TokenTrace.tla", "trace/TokenTrace.cfg", trace, nparts=4 if q else 36, timeout=1800)
    total, distinct = vlib.count_distinct_behaviours(beh)
    nontrivial = sum(1 for line in open(beh) if '"ann"' in line and '"get"' in line)
    ctx.add_tv("tokens", tv, total, min(distinct, nontrivial))
    ctx.cov["rule"] = ("behaviours = all operation sequences of the TLA+ model MC_Token up to depth %d "
                       "(exhaustive) plus %d simulated ones of depth %d; distinct by content hash; "
                       "non-trivial = contains at least one get_peers and one announce"
                       % (3, n2, depth))
    ctx.cov["samples"] = vlib.head_lines(beh + ".2", 2) + vlib.head_lines(trace, 4)
    ctx.cov["exhaustive"] = False
    if tv.drifts:
        log("DRIFT (mechanism differs from TokenStore.tla, no property involved): %d reports, first: %s"
            % (len(tv.drifts), tv.drifts[0]))
    tv_verdict(ctx, tv, trace, "token-store-mbt")
    # wire level: get_peers / announce_peer against real serving nodes (tokens bound to the IP, 203 stores nothing)
    parts, _ = run_node_scenarios(ctx, server_scenarios(ctx), ["C06"], "server")
    node_verdict(ctx, parts, "server")


# =========================================================================================== C07

PEER_CFG = """SPECIFICATION Spec
CONSTANTS
  CAP = %(cap)d
  TTL = 86400000
  HASHES = {"h1", "h2"}
  ADDRS = {%(addrs)s}
  DELTAS = {%(deltas)s}
  FILLS = {%(fills)s}
  MAXSTEPS = %(steps)d
  GEN = %(gen)s
  RENEW_MOVES = %(moves)s
%(invs)s
CHECK_DEADLOCK FALSE
"""
PEER_INVS = "INVARIANT ChecksOK\nINVARIANT QueueSorted\nINVARIANT ViewsAgree\nINVARIANT Bounded"
PEER_ADDRS = '"a4:1", "a4:2", "b4:1", "c6:1"'
PEER_DELTAS = "1, 43200000, 86399999, 86400000, 86400001"


def gen_peer_bulk(path, seed_, count):
    """Seeded random behaviours for the production-size store (see check_C07)."""
    import random
    rnd = random.Random(seed_)
    H = ["h1", "h2", "h3"]
    DAY = 86400000
    with open(path, "w") as f:
        for b in range(count):
            ops, fresh = [], 0
            for _ in range(rnd.randint(8, 24)):
                r = rnd.random()
                if r < 0.30:
                    n = rnd.choice([1, 2, 5, 100, 249, 250, 251, 499, 500, 501])
                    ops.append({"op": "fill", "ih": rnd.choice(H), "n": n, "first": fresh})
                    fresh += n
                elif r < 0.45:
                    ops.append({"op": "renew", "ih": rnd.choice(H), "k": rnd.choice([1, 2, 3, 7])})
                elif r < 0.60:
                    ops.append({"op": "add", "ih": rnd.choice(H), "addr": rnd.choice(["a4:1", "a4:2", "b4:1", "c6:1", "c6:2"])})
                elif r < 0.80:
                    ops.append({"op": "find", "ih": rnd.choice(H)})
                else:
                    ops.append({"op": "adv", "d": rnd.choice([1, 1000, 3600000, DAY // 2, DAY - 3600000, DAY - 1, DAY, DAY + 1,
                                                               rnd.randint(1, DAY)])})
            ops.append({"op": "find", "ih": "h1"})
            ops.append({"op": "find", "ih": "h2"})
            f.write(json.dumps(ops) + "\n")
    return count


def check_C07(ctx):
    ctx.assumptions += [
        "TLC and the CommunityModules are correct; tokio's paused clock drives the crate clock (H1)",
        "component level only sees AnnounceStorage; the wire path (ports, family filter, 202) is covered by the node-level server traces",
        "MC exhaustive for CAP=3 up to MAXSTEPS events; production CAP=500 covered by seeded random bulk behaviours",
    ]
    q = ctx.quick
    res = vlib.tlc("mc/MC_PeerStore.tla", ctx.cfg("mc.cfg", PEER_CFG % dict(
        cap=3, addrs=PEER_ADDRS, deltas=PEER_DELTAS, fills="", steps=5 if q else 7, gen="FALSE", moves="TRUE",
        invs=PEER_INVS)), workers=8 if q else 16, timeout=600 if q else 3400, heap="8g" if q else "24g")
    vlib.require_mc_ok(res, "MC_PeerStore")
    ctx.add_mc("MC_PeerStore(CAP=3,steps=%d)" % (5 if q else 7), res)
    neg = vlib.tlc("mc/MC_PeerStore.tla", ctx.cfg("neg.cfg", PEER_CFG % dict(
        cap=3, addrs=PEER_ADDRS, deltas=PEER_DELTAS, fills="", steps=6, gen="FALSE", moves="FALSE",
        invs=PEER_INVS)), workers=8, timeout=900)
    if neg.no_error:
        raise ToolError("vacuity guard: in-place renewal variant was not caught by MC_PeerStore")
    # binding 1: all small behaviours (exhaustive) against the real store
    beh = ctx.path("behaviours.ndjson")
    g1 = vlib.tlc("mc/MC_PeerStore.tla", ctx.cfg("gen1.cfg", PEER_CFG % dict(
        cap=3, addrs='"a4:1", "b4:1", "c6:1"', deltas="43200000, 86399999, 86400000, 86400001", fills="",
        steps=4, gen="TRUE", moves="TRUE", invs="INVARIANT Emit")), workers=1, timeout=1800)
    n1 = vlib.extract_replays(g1, beh + ".1")
    # binding 2: production capacity -- seeded random bulk behaviours over the same operation alphabet
    # (fill / renew / add / find / adv) crossing the 500-pair limit and the 24 h boundary over several days.
    # (TLC -simulate on the CAP=500 model costs ~2 s per Fill successor; kept for the thorough MC only.)
    n2 = gen_peer_bulk(beh + ".2", vlib.seed(), 12 if q else 120)
    if not q:
        # optional deepening: the design model itself at the production capacity (slow: every Fill successor builds 500 pairs);
        # a time-out here only means this extra stage is skipped -- the CAP=500 behaviours are exercised on the real store below
        try:
            g2 = vlib.tlc("mc/MC_PeerStore.tla", ctx.cfg("mc500.cfg", PEER_CFG % dict(
                cap=500, addrs='"a4:1", "c6:1"', deltas="3600000, 86399999, 86400001",
                fills="250, 499, 501", steps=6, gen="FALSE", moves="TRUE", invs="INVARIANT ChecksOK\nINVARIANT Bounded")),
                workers=4, timeout=1200, simulate=1, depth=7, seed_=vlib.seed())
        except ToolError as e:
            if "timed out" not in str(e):
                raise
            log("MC_PeerStore(CAP=500) simulation skipped: " + str(e)[:120])
            g2 = None
        if g2 is not None:
            if g2.inv_violated:
                raise ToolError("MC_PeerStore(CAP=500) simulate run violated %s" % g2.inv_violated)
            ctx.add_mc("MC_PeerStore(CAP=500,simulate)", g2)
    if n1 == 0 or n2 == 0:
        raise ToolError("behaviour generation produced nothing (%d, %d)" % (n1, n2))
    with open(beh, "w") as f:
        for p in (beh + ".1", beh + ".2"):
            f.write(open(p).read())
    trace = ctx.path("trace.ndjson")
    vlib.vh(["peers", "--in", beh, "--out", trace])
    tv = vlib.validate_trace_parallel("trace/PeerTrace.tla", "trace/PeerTrace.cfg", trace, nparts=8 if q else 40, timeout=3000)
    total, distinct = vlib.count_distinct_behaviours(beh)
    nontrivial = sum(1 for line in open(beh) if '"find"' in line and ('"add"' in line or '"fill"' in line))
    ctx.add_tv("peers", tv, total, min(distinct, nontrivial))
    ctx.cov["rule"] = ("behaviours = all operation sequences of MC_PeerStore (CAP=3 alphabet) up to depth %d replayed on the "
                       "real 500-pair store, plus %d seeded random behaviours with bulk fill/renew steps crossing the 500 "
                       "limit and the 24 h boundary; non-trivial = at least one add/fill and one find" % (4, n2))
    ctx.cov["samples"] = vlib.head_lines(beh + ".2", 1, 900) + vlib.head_lines(trace, 5)
    if tv.drifts:
        log("DRIFT (mechanism differs from PeerStore.tla, no property involved): %d reports, first: %s"
            % (len(tv.drifts), tv.drifts[0]))
    tv_verdict(ctx, tv, trace, "peer-store-mbt")
    # wire level: announced / implied port, family filter, error 202 on real serving nodes
    parts, _ = run_node_scenarios(ctx, server_scenarios(ctx), ["C07"], "server")
    node_verdict(ctx, parts, "server")


# ================================================================================= C08 / C09 / C10

TABLE_CFG = """SPECIFICATION Spec
CONSTANTS
  K = 2
  BITS = 4
  SELF = 5
  IDS = {%(ids)s}
  RIDS = {12}
  ADDRS = {"a4:1"}
  ROUTERS = {"r4:9"}
  DELTAS = {%(deltas)s}
  MAXSTEPS = %(steps)d
  LowestFirst = %(lowest)s
  GEN = %(gen)s
%(invs)s
CHECK_DEADLOCK FALSE
"""
TABLE_IDS = "5, 4, 7, 1, 13, 12, 10"
TABLE_DELTAS = "1, 30000, 899999, 900000"
TABLE_TV_CFG = """SPECIFICATION Spec
CONSTANT StrictProps = {%s}
POSTCONDITION Accepted
CHECK_DEADLOCK FALSE
"""


def gen_table_random(path, seed_, count, depth):
    """Seeded random behaviours for the real routing table (K=8, 160 buckets): clustered ids so that
    buckets fill, split deeply and evict; mixed standings, repeats, queries, time around 15 min / 30 s."""
    import random
    rnd = random.Random(seed_)
    with open(path, "w") as f:
        for b in range(count):
            flip = lambda s, i: s[:i] + ("1" if s[i] == "0" else "0") + s[i + 1:]
            shape = ["deepest", "deep", "flat", "mixed", "deepest"][b % 5] if b < 10 else rnd.choice(["deep", "flat", "mixed", "deepest"])
            if shape == "deepest":
                # full 160-bit ids differing from the local id only in the last few bits, each under many addresses:
                # the only way to split the table all the way down to 160 buckets
                selfbits = "".join(rnd.choice("01") for _ in range(160))
                ids = [selfbits] + [flip(selfbits, 159 - k) for k in range(4) for _ in range(3)] + [flip(flip(selfbits, 159), 157)]
                ids += [flip(selfbits, rnd.randint(0, 150))[:rnd.randint(151, 160)].ljust(160, "0") for _ in range(6)]
                addrs = ["a4:%d" % p for p in range(1, 14)] + ["r4:9", "d6:5"]
                ops, known = [], []
                for _ in range(depth):
                    r = rnd.random()
                    if r < 0.55:
                        i, a = rnd.choice(ids[:14]), rnd.choice(addrs)
                        ops.append({"op": rnd.choice(["good", "good", "good", "quest"]), "id": i, "addr": a})
                        known.append((i, a))
                    elif r < 0.65 and known:
                        i, a = rnd.choice(known)
                        ops.append({"op": rnd.choice(["local", "remote"]), "id": i, "addr": a})
                    elif r < 0.85:
                        ops.append({"op": "closest", "target": rnd.choice(ids)})
                    else:
                        ops.append({"op": "adv", "d": rnd.choice([1, 30000, 450000, 899999, 900000])})
                f.write(json.dumps({"meta": {"bits": 160, "self": selfbits, "routers": ["r4:9"]}, "ops": ops}) + "\n")
                continue
            selfbits = "".join(rnd.choice("01") for _ in range(24))
            ids = [selfbits]  # the local id itself (must never be admitted)
            # ids sharing 0..20 leading bits with self; several per prefix length (to overflow buckets)
            for _ in range(rnd.randint(20, 45)):
                if shape == "deep":
                    p = rnd.randint(0, 20)
                elif shape == "flat":
                    p = rnd.randint(0, 2)
                else:
                    p = rnd.choice([0, 0, 1, 1, 2, 3, 5, 8, 12, 16, 20])
                tail = "".join(rnd.choice("01") for _ in range(24 - p - 1))
                ids.append(flip(selfbits, p)[:p + 1] + tail)
            ids.append(selfbits[:23] + ("1" if selfbits[23] == "0" else "0"))  # differs in the last bit
            full = lambda s: s  # leading bits; the rest of the 160 bits is zero
            # ids that differ from self only in bit 159 / equal up to bit 24
            addrs = ["a4:1", "a4:2", "b4:1", "c4:7", "r4:9", "d6:5"]
            routers = ["r4:9"]
            ops = []
            known = []
            for _ in range(depth):
                r = rnd.random()
                if r < 0.40:
                    i = rnd.choice(ids)
                    a = rnd.choice(addrs) if rnd.random() < 0.3 else "a4:1"
                    ops.append({"op": rnd.choice(["good", "good", "quest"]), "id": full(i), "addr": a})
                    known.append((i, a))
                elif r < 0.60 and known:
                    i, a = rnd.choice(known)
                    ops.append({"op": "local", "id": full(i), "addr": a})
                elif r < 0.70 and known:
                    i, a = rnd.choice(known)
                    ops.append({"op": "remote", "id": full(i), "addr": a})
                elif r < 0.73:
                    ops.append({"op": "remote", "id": full(rnd.choice(ids)), "addr": rnd.choice(addrs)})
                elif r < 0.80:
                    tg = rnd.choice(ids + [selfbits]) if rnd.random() < 0.7 else "".join(rnd.choice("01") for _ in range(160))
                    ops.append({"op": "closest", "target": tg})
                else:
                    ops.append({"op": "adv", "d": rnd.choice([1, 1000, 29999, 30000, 60000, 450000, 899999, 900000, 900001,
                                                               rnd.randint(1, 1000000)])})
            f.write(json.dumps({"meta": {"bits": 24, "self": selfbits, "routers": routers}, "ops": ops}) + "\n")
    return count


def table_pipeline(ctx, strict):
    """MC of the table design + binding of the real RoutingTable (shared by C08, C09, C10)."""
    q = ctx.quick
    invs = "INVARIANT ChecksOK"
    steps = 4 if q else 5
    res = vlib.tlc("mc/MC_Table.tla", ctx.cfg("mc.cfg", TABLE_CFG % dict(
        ids=TABLE_IDS, deltas=TABLE_DELTAS, steps=steps, lowest="TRUE", gen="FALSE", invs=invs)),
        workers=8 if q else 16, timeout=900 if q else 3400, heap="8g" if q else "24g")
    vlib.require_mc_ok(res, "MC_Table")
    ctx.add_mc("MC_Table(K=2,4-bit ids,steps=%d)" % steps, res)
    if not q:
        sim = vlib.tlc("mc/MC_Table.tla", ctx.cfg("mcsim.cfg", TABLE_CFG % dict(
            ids=TABLE_IDS, deltas=TABLE_DELTAS, steps=14, lowest="TRUE", gen="FALSE", invs=invs)),
            workers=8, timeout=1800, simulate=300, depth=15, seed_=vlib.seed())
        if sim.inv_violated:
            raise ToolError("MC_Table simulate violated %s" % sim.inv_violated)
        ctx.add_mc("MC_Table(simulate,depth=14)", sim)
    # vacuity guard: the pinned-tree replacement policy (first lower slot) must violate C08 in the model
    neg = vlib.tlc("mc/MC_Table.tla", ctx.cfg("neg.cfg", TABLE_CFG % dict(
        ids=TABLE_IDS, deltas=TABLE_DELTAS, steps=3, lowest="FALSE", gen="FALSE", invs=invs)), workers=4, timeout=900)
    vlib.require_mc_fails(neg, "ChecksOK", "LowestFirst=FALSE")
    # binding 1: every behaviour of the small model up to depth d, replayed on the real table (ids embedded)
    beh = ctx.path("behaviours.ndjson")
    g1 = vlib.tlc("mc/MC_Table.tla", ctx.cfg("gen1.cfg", TABLE_CFG % dict(
        ids="5, 4, 13, 12, 10", deltas="30000, 899999, 900000", steps=3 if q else 4, lowest="TRUE", gen="TRUE",
        invs="INVARIANT Emit")), workers=1, timeout=1800)
    tmp = beh + ".1raw"
    n1 = vlib.extract_replays(g1, tmp)
    with open(beh + ".1", "w") as f:
        for line in open(tmp):
            f.write(json.dumps({"meta": {"bits": 4, "self": 5, "routers": ["r4:9"]}, "ops": json.loads(line)}) + "\n")
    # binding 1b: the life of ONE contact, exhaustively: every sequence of {it answers, we query it, it queries us, 15 min pass}
    # up to depth 7 (quick) / 8 (thorough) -- the histories C10 quantifies over
    life = """SPECIFICATION Spec
CONSTANTS
  K = 2
  BITS = 4
  SELF = 5
  IDS = {13}
  RIDS = {}
  ADDRS = {"a4:1"}
  ROUTERS = {}
  DELTAS = {900000}
  MAXSTEPS = %d
  LowestFirst = TRUE
  GEN = TRUE
INVARIANT Emit
INVARIANT ChecksOK
CHECK_DEADLOCK FALSE
""" % (7 if q else 8)
    g3 = vlib.tlc("mc/MC_Table.tla", ctx.cfg("gen3.cfg", life), workers=1, timeout=1800)
    if g3.inv_violated:
        raise ToolError("MC_Table (single contact life) violated %s" % g3.inv_violated)
    ctx.add_mc("MC_Table(single contact, depth=%d)" % (7 if q else 8), g3)
    n3 = vlib.extract_replays(g3, beh + ".3raw")
    seen3 = set()
    with open(beh + ".3", "w") as f:
        for line in open(beh + ".3raw"):
            ops = [o for o in json.loads(line) if o.get("op") != "quest"]
            key = json.dumps(ops)
            if key in seen3 or len(ops) < 5:
                continue
            seen3.add(key)
            f.write(json.dumps({"meta": {"bits": 4, "self": 5, "routers": []}, "ops": ops}) + "\n")
            # ... and, for the lives that end with a query sent to the contact, the same life with the contact named once more by
            # hearsay at the end (a contact that lapsed to bad standing must be admitted anew)
            if ops[-1].get("op") == "local":
                f.write(json.dumps({"meta": {"bits": 4, "self": 5, "routers": []},
                                    "ops": ops + [{"op": "quest", "id": ops[-1]["id"], "addr": ops[-1]["addr"]}]}) + "\n")
    n3 = len(seen3)
    # binding 2: production constants, seeded random long behaviours
    n2 = gen_table_random(beh + ".2", vlib.seed(), 25 if q else 300, 90 if q else 160)
    if n1 == 0:
        raise ToolError("behaviour generation produced nothing")
    with open(beh, "w") as f:
        for p in (beh + ".1", beh + ".2", beh + ".3"):
            f.write(open(p).read())
    trace = ctx.path("trace.ndjson")
    # small-model behaviours: a sweep of closest-node probes at the end; long behaviours: probes after every operation
    vlib.vh(["table", "--in", beh + ".1", "--out", trace + ".1", "--probe", "1"])
    vlib.vh(["table", "--in", beh + ".2", "--out", trace + ".2", "--probe", "2"])
    vlib.vh(["table", "--in", beh + ".3", "--out", trace + ".3", "--probe", "0"])
    with open(trace, "w") as f:
        for p in (trace + ".1", trace + ".2", trace + ".3"):
            f.write(open(p).read())
    tv = vlib.validate_trace_parallel("trace/TableTrace.tla", ctx.cfg("tv.cfg", TABLE_TV_CFG % ", ".join('"%s"' % s for s in strict)),
                                      trace, nparts=14 if q else 70, timeout=3000)
    total, distinct = vlib.count_distinct_behaviours(beh)
    ctx.add_tv("table", tv, total, distinct)
    ctx.cov["rule"] = ("behaviours = all operation sequences (offer as responder / as hearsay, query sent, query received, time) of "
                       "the small model MC_Table up to depth %d, replayed on the real RoutingTable with the model ids embedded as "
                       "leading bits, plus %d seeded random behaviours of %d operations at production constants (K=8, clustered ids "
                       "forcing deep splits and evictions); after EVERY operation the full table is dumped and the statements are "
                       "evaluated; every behaviour is distinct by content hash and non-trivial (>= 3 operations)"
                       % (3 if q else 4, n2, 90 if q else 160))
    ctx.cov["samples"] = vlib.head_lines(beh + ".1", 2, 400) + vlib.head_lines(beh + ".2", 1, 700) + vlib.head_lines(trace, 3, 500)
    if tv.drifts:
        log("DRIFT (mechanism differs from RoutingTable.tla, no property involved): %d reports, first: %s"
            % (len(tv.drifts), tv.drifts[0]))
    tv_verdict(ctx, tv, trace, "routing-table-mbt")


TABLE_ASSUME = [
    "TLC and the CommunityModules are correct; tokio's paused clock drives the crate clock (H1)",
    "the harness (vh table) transports table dumps faithfully; hook H2 wrappers only forward to RoutingTable",
    "MC exhaustive for K=2 / 4-bit ids up to MAXSTEPS events; production constants on the replayed behaviours only",
]


def check_C08(ctx):
    ctx.assumptions += TABLE_ASSUME
    table_pipeline(ctx, ["C08"])


def check_C09(ctx):
    ctx.assumptions += TABLE_ASSUME
    table_pipeline(ctx, ["C09"])
    # wire level: the node lists of real find_node / get_peers replies against the table dumped at that instant
    parts, _ = run_node_scenarios(ctx, server_scenarios(ctx), ["C09"], "server")
    node_verdict(ctx, parts, "server")


def check_C10(ctx):
    ctx.assumptions += TABLE_ASSUME + ["'until it answers again' is read as 'or is admitted anew by a later mention' (DESIGN §5 C10)"]
    table_pipeline(ctx, ["C10"])


# =========================================================================================== C19

TXN_CFG = """SPECIFICATION Spec
CONSTANTS
  BLOCK = %(block)d
  MMAX = %(mmax)d
  AMAX = %(amax)d
  DRAWS = %(draws)d
INVARIANT %(inv)s
CHECK_DEADLOCK FALSE
"""


def check_C19(ctx):
    ctx.assumptions += [
        "TLC is correct; the per-block reduction of 16.8 M drawn ids to summaries (vh txn) is trusted (DESIGN §5 C19)",
        "the action-id wrap at 2^40 is unreachable by drawing and is covered by the model only",
        "'do not repeat until 2^24 have been issued' is read as: the first 2^24 ids of an activity are pairwise distinct; the "
        "stronger sliding-window reading is false for the block-shuffle design (shown by mc/MC_Txn_sliding.cfg) and is not demanded",
        "wire-level discipline (8-byte tids, prefix of the issuing activity, shared first bootstrap id) is checked on node traces",
    ]
    q = ctx.quick
    res = vlib.tlc("mc/MC_Txn.tla", ctx.cfg("mc.cfg", TXN_CFG % dict(block=2, mmax=8, amax=4, draws=12 if q else 20, inv="Inv")),
                   workers=8, timeout=1200)
    vlib.require_mc_ok(res, "MC_Txn")
    ctx.add_mc("MC_Txn(BLOCK=2,MMAX=8,AMAX=4)", res)
    if not q:
        res2 = vlib.tlc("mc/MC_Txn.tla", ctx.cfg("mc4.cfg", TXN_CFG % dict(block=4, mmax=8, amax=8, draws=9, inv="Inv")),
                        workers=16, timeout=2400, heap="16g")
        vlib.require_mc_ok(res2, "MC_Txn(BLOCK=4)")
        ctx.add_mc("MC_Txn(BLOCK=4,MMAX=8,AMAX=8)", res2)
    # vacuity guards: a block length that does not divide the id space breaks the design; the sliding-window reading is false
    neg = vlib.tlc("mc/MC_Txn.tla", ctx.cfg("neg.cfg", TXN_CFG % dict(block=3, mmax=8, amax=4, draws=12, inv="Inv")), workers=4, timeout=600)
    vlib.require_mc_fails(neg, "Inv", "BLOCK=3")
    # binding: the real generators at production constants
    trace = ctx.path("trace.ndjson")
    rc, out = vlib.vh(["txn", "--out", trace, "--extra", "3" if q else "9"])
    tv = vlib.validate_trace("trace/TxnTrace.tla", "trace/TxnTrace.cfg", trace, timeout=1200)
    nblocks = sum(1 for line in open(trace) if '"MidBlock"' in line)
    ctx.add_tv("txn", tv, 1, 1)
    ctx.cov["evaluations"] = nblocks
    ctx.cov["distinct_nontrivial"] = nblocks
    ctx.cov["traces_validated_against_impl"] = 1
    ctx.cov["rule"] = ("one run of the real generators: %d blocks of 2048 ids (2^24 + extra draws through the wrap of message ids) "
                       "from one MIDGenerator, each block reduced to one summary line checked by TLC, three blocks in full, plus "
                       "6144 activity prefixes; a case = one block, all blocks are distinct ranges" % nblocks)
    ctx.cov["samples"] = vlib.head_lines(trace, 3, 300)
    if tv.drifts:
        log("DRIFT: %d reports, first: %s" % (len(tv.drifts), tv.drifts[0]))
    tv_verdict(ctx, tv, trace, "txn-ids")
    # wire level: every query of real nodes (searches, refresh, bootstrap and its retries) carries an 8-byte id with the prefix of its
    # activity, fresh within the activity, never twice towards the same address
    sc = lookup_scenarios(ctx, "timing", [3, 10], [0, 1, 5] if q else list(range(0, 12))) + lookup_scenarios(ctx, "hostile", [5], [1] if q else [1, 2, 3])
    # more activities in one process than one block of action ids (2048): every prefix must differ from every prefix used before
    sc += [("manysearch-s%d" % k, ["--scenario", "manysearch", "--seed", str(vlib.seed() % 1000 + k), "--n", "2100" if q else "4300"]) for k in ((0,) if q else (0, 1))]
    parts, _ = run_node_scenarios(ctx, sc, ["C19"], "wire")
    node_verdict(ctx, parts, "wire")


# =========================================================================================== C20

def check_C20(ctx):
    ctx.level = "exploration"
    ctx.assumptions += [
        "spec/Bep42.tla is a faithful transcription of BEP42 (pinned by ASSUME to the five published vectors and the CRC-32C check value)",
        "TLC evaluates the oracle; the harness only transports (address, id) pairs produced by the public InfoHash::from_ip",
    ]
    q = ctx.quick
    import concurrent.futures
    nparts = 4 if q else 16
    def one(i):
        tr = ctx.path("trace%02d.ndjson" % i)
        if q:
            args = ["bep42", "--out", tr, "--n4", "5000", "--n6", "5000", "--part", "%d/%d" % (i, nparts), "--seed", str(vlib.seed() + i)]
        else:
            args = ["bep42", "--out", tr, "--classes", "all", "--n6", "100000", "--part", "%d/%d" % (i, nparts), "--seed", str(vlib.seed() + i)]
        vlib.vh(args)
        tv = vlib.validate_trace("trace/Bep42Trace.tla", "trace/Bep42Trace.cfg", tr, timeout=3000, heap="3g")
        tv.trace_file = tr
        return tv
    vlib.build_harness()
    with concurrent.futures.ThreadPoolExecutor(max_workers=nparts) as ex:
        parts = list(ex.map(one, range(nparts)))
    tv = vlib.TvMulti(parts, sum(p.nlines for p in parts), max(p.res.wall for p in parts))
    ids = set()
    n = 0
    for i in range(nparts):
        for line in open(ctx.path("trace%02d.ndjson" % i)):
            if '"Id"' in line:
                n += 1
                ids.add(hash(line))
    ctx.cov["evaluations"] = n
    ctx.cov["distinct_nontrivial"] = len(ids)
    ctx.cov["traces_validated_against_impl"] = nparts
    ctx.cov["checker_cmd"] = parts[0].res.cmd
    ctx.cov["rule"] = ("(address, id) pairs from the real InfoHash::from_ip: IPv4 addresses stratified over the 20 mask-relevant bits "
                       "(%s), remaining bits random; IPv6 random /64 prefixes plus single-bit prefixes; a case is distinct by content; "
                       "every case is non-trivial (a full BEP42 validation by the TLA+ oracle)" %
                       ("each single bit both ways, then random classes" if q else "ALL 2^20 classes once"))
    ctx.cov["samples"] = [l for l in vlib.head_lines(ctx.path("trace00.ndjson"), 4, 300)][1:]
    ctx.cov["exhaustive"] = False
    tv_verdict(ctx, tv, ctx.path("trace00.ndjson"), "bep42")


# ============================================================================ node-level: server (C05 C12 C17 + wire C06 C07 C09)

NODE_TV_CFG = """SPECIFICATION Spec
CONSTANT StrictProps = {%s}
POSTCONDITION Accepted
CHECK_DEADLOCK FALSE
"""


def run_node_scenarios(ctx, scenarios, strict, tag):
    """scenarios: list of (name, [vh node args]).  Record each on the real node(s), validate all in parallel."""
    import concurrent.futures
    vlib.build_harness()
    cfg = ctx.cfg("nodetv-%s.cfg" % tag, NODE_TV_CFG % ", ".join('"%s"' % s for s in strict))

    def one(sc):
        name, args = sc
        tr = ctx.path("%s-%s.ndjson" % (tag, name))
        rc, out = vlib.vh(["node"] + args + ["--out", tr], timeout=1800, allow_fail=True)
        crashed = rc != 0
        if crashed:
            # a panic / abort of the code under test is data, not a tool error: validate what was recorded
            log("[%s] harness exited with %d (node crashed?):\n%s" % (name, rc, out[-800:]))
        if not os.path.exists(tr) or os.path.getsize(tr) == 0:
            raise ToolError("scenario %s produced no trace:\n%s" % (name, out[-2000:]))
        tv = vlib.validate_trace("trace/NodeTrace.tla", cfg, tr, timeout=3000 if ctx.quick else 7000, heap="6g")
        tv.trace_file = tr
        tv.crashed = crashed
        tv.name = name
        return tv

    with concurrent.futures.ThreadPoolExecutor(max_workers=min(8, len(scenarios))) as ex:
        parts = list(ex.map(one, scenarios))
    known = set()
    for p in parts:
        for k in p.res.printed("KNOWNFINDING"):
            known.add(k)
        ctx.add_tv(p.name, p, 1, 1)
    return parts, known


def node_verdict(ctx, parts, what):
    ok = True
    for p in parts:
        if getattr(p, "crashed", False) and p.accepted:
            # the harness died but every recorded line was consistent with this property
            log("[%s] node process died; the recorded prefix satisfies %s" % (p.name, ctx.pid))
        if not p.accepted:
            ok = False
            tv_verdict(ctx, p, p.trace_file, "%s-%s" % (what, p.name))
    return ok


def handle_known_findings(ctx, known):
    """KNOWNFINDING lines printed by the trace specification are matched against known_findings.json."""
    kf = vlib.known_findings()
    listed = [f for f in kf.get("findings", []) if f.get("property") == ctx.pid]
    if not known:
        return
    classes = set()
    for k in known:
        m = re.search(r'"KNOWNFINDING",\s*"(\w+)",\s*"([^"]+)"', k)
        if m and m.group(1) == ctx.pid:
            classes.add(m.group(2))
    for c in sorted(classes):
        hit = [f for f in listed if f.get("class") == c]
        if hit:
            ctx.known.append("%s (%d occurrences this run)" % (hit[0]["what"], sum(1 for k in known if c in k)))
        else:
            # a finding class the file does not list is a violation like any other
            ctx.violation("unlisted finding class %s" % c, vlib.save_replay(ctx.pid, "unlisted-%s.txt" % c, content="\n".join(sorted(known))))


def server_scenarios(ctx):
    s = vlib.seed()
    q = ctx.quick
    sc = [("v4", ["--scenario", "server", "--seed", str(s), "--nq", "500" if q else "2500", "--fat", "190", "--renew", "520"]),
          ("v6", ["--scenario", "server", "--seed", str(s + 1), "--fam", "6", "--nq", "300" if q else "1500", "--fat", "70"]),
          ("ro", ["--scenario", "server", "--seed", str(s + 2), "--ro", "1", "--nq", "150" if q else "600"])]
    if not q:
        sc += [("v4b", ["--scenario", "server", "--seed", str(s + 3), "--nq", "2500", "--fat", "500"]),
               ("v6b", ["--scenario", "server", "--seed", str(s + 4), "--fam", "6", "--nq", "1500", "--fat", "200"])]
    return sc


SERVER_ASSUME = [
    "TLC is correct; the harness' own bencode reader (harness/src/benc.rs) describes datagrams faithfully",
    "hooks H1 (clock) and H3 (step brackets, table dump) report after the state change inside the single handler task",
    "the simulated network (SocketTrait implementation) stands for UDP; single-threaded runtime on the paused clock",
]


def node_stats(ctx, parts):
    n = 0
    kinds = {}
    for p in parts:
        for line in open(p.trace_file):
            n += 1
            m = re.search(r'"ev":"(\w+)"', line)
            if m:
                kinds[m.group(1)] = kinds.get(m.group(1), 0) + 1
    ctx.cov["event_counts"] = kinds
    ctx.cov["evaluations"] = n
    return n, kinds


SERVER_MC_CFG = """SPECIFICATION Spec
CONSTANTS
  RO = %(ro)s
  MAXSTEPS = %(steps)d
  DELTAS = {1, 600000, 1200000}
  CAPC = 2
  GATED = %(gated)s
INVARIANT ChecksOK
CHECK_DEADLOCK FALSE
"""


def server_mc(ctx):
    """Design level: Server.tla (composition of table, token store, peer store) against the reply-shape rules and the
    history statements, serving and read-only; the ungated-store variant must be caught."""
    q = ctx.quick
    for ro in ("FALSE", "TRUE"):
        steps = (4 if q else 5) if ro == "FALSE" else 3
        r = vlib.tlc("mc/MC_Server.tla", ctx.cfg("mcserver-%s.cfg" % ro, SERVER_MC_CFG % dict(ro=ro, steps=steps, gated="TRUE")),
                     workers=8 if q else 16, timeout=900 if q else 3400)
        vlib.require_mc_ok(r, "MC_Server(RO=%s)" % ro)
        ctx.add_mc("MC_Server(read_only=%s,steps=%d)" % (ro, steps), r)
    neg = vlib.tlc("mc/MC_Server.tla", ctx.cfg("mcserver-neg.cfg", SERVER_MC_CFG % dict(ro="FALSE", steps=4, gated="FALSE")), workers=4, timeout=900)
    vlib.require_mc_fails(neg, "ChecksOK", "GATED=FALSE")


def check_C05(ctx):
    ctx.assumptions += SERVER_ASSUME
    server_mc(ctx)
    parts, known = run_node_scenarios(ctx, server_scenarios(ctx), ["C05"], "server")
    n, kinds = node_stats(ctx, parts)
    ctx.cov["distinct_nontrivial"] = kinds.get("Recv", 0)
    ctx.cov["rule"] = ("recorded executions of real nodes (serving v4, serving v6, read-only) receiving seeded random queries of every kind / "
                       "want / port / token / transaction-id (0..32 bytes) combination interleaved with responses, errors, garbage and time; "
                       "a case = one received datagram (its handler step is checked by TLC)")
    ctx.cov["samples"] = vlib.head_lines(parts[0].trace_file, 40, 400)[-3:]
    node_verdict(ctx, parts, "server")


def check_C12(ctx):
    ctx.assumptions += SERVER_ASSUME + ["'a prefix the node never used' = not the prefix of any query this node has sent so far (observed on the wire)"]
    server_mc(ctx)
    sc = server_scenarios(ctx) + lookup_scenarios(ctx, "hostile", [12], [1, 2] if ctx.quick else list(range(1, 9)))
    parts, known = run_node_scenarios(ctx, sc, ["C12"], "server")
    n, kinds = node_stats(ctx, parts)
    ctx.cov["distinct_nontrivial"] = kinds.get("HEnd", 0)
    ctx.cov["rule"] = ("recorded executions of real nodes receiving unsolicited queries and responses (random / short / long / stale "
                       "transaction ids, node lists naming the node's own id); after EVERY handler step the dumped table is compared "
                       "with the one before: a case = one handler step")
    ctx.cov["samples"] = vlib.head_lines(parts[0].trace_file, 60, 300)[-3:]
    node_verdict(ctx, parts, "server")


def check_C17(ctx):
    ctx.assumptions += SERVER_ASSUME + ["the recorded finding class (get_peers reply too long only because of `values`) is reported as KNOWN-FINDING, any other oversize datagram is a violation"]
    r = vlib.tlc("mc/MC_ReplyLen.tla", "mc/MC_ReplyLen.cfg", workers=2, timeout=900)
    vlib.require_mc_ok(r, "MC_ReplyLen")
    ctx.add_mc("MC_ReplyLen(size model: 0..500 values x families x 0..8 nodes x tid lengths)", r)
    ctx.cov["size_model"] = [x for x in r.out.splitlines() if "MAXFIT" in x or x.strip().startswith(("\"", "1", "5"))][:10]
    # plus two day-long histories (projection mode): a swarm of 100 peers announces, renews (in another order / another hash of the
    # same peers), and is replaced a day later by 100 other peers -- the replies of the second day carry 100 peers and fit
    sd = vlib.seed() % 1000
    stale = [("stale-s%d" % k, ["--scenario", "stale", "--seed", str(sd + k)]) for k in ((0, 1) if ctx.quick else (0, 1, 2, 3))]
    parts, known = run_node_scenarios(ctx, server_scenarios(ctx) + stale, ["C17"], "server")
    n, kinds = node_stats(ctx, parts)
    ctx.cov["distinct_nontrivial"] = kinds.get("Send", 0)
    ctx.cov["rule"] = ("every datagram sent by real nodes in the server scenarios (queries, replies, errors; 0..190 peers on one info-hash, "
                       "both families, all want combinations, transaction ids up to 32 bytes): a case = one sent datagram, its length "
                       "is checked by TLC against 1500")
    ctx.cov["samples"] = [l for l in vlib.head_lines(parts[0].trace_file, 400, 300) if '"Send"' in l][:3]
    handle_known_findings(ctx, known)
    node_verdict(ctx, parts, "server")


# =========================================================================================== C13

def check_C13(ctx):
    ctx.level = "model_checking"
    ctx.assumptions += [
        "spec/Wire.tla is a faithful transcription of BEP3/5/32 (pinned by ASSUME to the BEP5 example messages)",
        "the harness' own bencode reader/writer (benc.rs) produces the key-permuted / unknown-key / ill-formed variants faithfully",
        "TLC evaluates Wire!Encode on every recorded message; agreement on the cases explored, not a proof over the input space",
        "every variant datagram is also read by the specification's own decoder (WireParse!Interpret): it must denote the expected "
        "message (or be rejected), otherwise the run is a tool error",
    ]
    q = ctx.quick
    # spec -> impl: every message of the enumerated shape space (MC_Wire) through the real encoder / decoder
    g = vlib.tlc("mc/MC_Wire.tla", "mc/MC_Wire.cfg", workers=1, timeout=1200)
    vlib.require_mc_ok(g, "MC_Wire")
    ctx.add_mc("MC_Wire(enumerated shape space)", g)
    beh = ctx.path("msgs.ndjson")
    n1 = vlib.extract_replays(g, beh)
    ctx.cov["states"] = max(ctx.cov["states"], n1)
    if n1 < 1000:
        raise ToolError("MC_Wire enumerated only %d messages" % n1)
    t1 = ctx.path("wire-enum.ndjson")
    vlib.vh(["wire", "--in", beh, "--out", t1, "--seed", str(vlib.seed())])
    # impl -> spec: seeded random messages over the whole field space with permuted / unknown-key / ill-formed variants
    t2 = ctx.path("wire-rand.ndjson")
    n2 = 700 if q else 6000
    vlib.vh(["wire", "--out", t2, "--n", str(n2), "--seed", str(vlib.seed())])
    import concurrent.futures
    def val(tr):
        parts = split_lines(tr, 6 if q else 14)
        with concurrent.futures.ThreadPoolExecutor(max_workers=len(parts)) as ex:
            res = list(ex.map(lambda f: _tv_file("trace/WireTrace.tla", "trace/WireTrace.cfg", f), parts))
        return vlib.TvMulti(res, sum(p.nlines for p in res), max(p.res.wall for p in res))
    tv1, tv2 = val(t1), val(t2)
    mism = [x for tv in (tv1, tv2) for p in tv.parts for x in p.res.printed("ORACLEMISMATCH")]
    if mism:
        raise ToolError("the wire specification (WireParse!Interpret) disagrees with the harness about %d variants, e.g. %s -- a defect of "
                        "the machinery, not of the code" % (len(mism), mism[0]))
    ndec = sum(1 for t in (t1, t2) for line in open(t) if '"ev":"Dec"' in line)
    ctx.add_tv("wire-enumerated", tv1, n1, n1)
    ctx.add_tv("wire-random", tv2, n2, n2)
    ctx.cov["evaluations"] = n1 + n2 + ndec
    ctx.cov["distinct_nontrivial"] = n1 + n2
    ctx.cov["rule"] = ("%d messages enumerated by TLC from mc/MC_Wire.tla (every kind x adversarial field domains) plus %d seeded random "
                       "messages over the whole field space; each is encoded by the real encoder (bytes compared with Wire!Encode by TLC) "
                       "and decoded from its canonical, key-permuted and unknown-key encodings (%d decodes compared with the expected "
                       "message), ill-formed variants must be rejected" % (n1, n2, ndec))
    ctx.cov["samples"] = vlib.head_lines(t2, 3, 500)[1:]
    tv_verdict(ctx, tv1, t1, "wire-enumerated")
    tv_verdict(ctx, tv2, t2, "wire-random")


def split_lines(path, nparts):
    """Split a trace whose lines are independent cases into nparts files, each starting with a Reset line."""
    lines = open(path).read().splitlines(True)
    body = [ln for ln in lines if '"ev":"Reset"' not in ln and '"ev":"End"' not in ln]
    per = max(1, (len(body) + nparts - 1) // nparts)
    files = []
    for k in range(0, len(body), per):
        p = "%s.part%02d" % (path, len(files))
        with open(p, "w") as f:
            f.write('{"ev":"Reset","t":0}\n')
            f.writelines(body[k:k + per])
        files.append(p)
    # the End line (vacuity guard) goes with the whole-file counts only: append to the last part a synthetic check-free end
    return files


def _tv_file(tla, cfg, f):
    tv = vlib.validate_trace(tla, cfg, f, timeout=3000, heap="3g")
    tv.trace_file = f
    return tv


# =========================================================================================== C14

def check_C14(ctx):
    ctx.level = "fault_enumeration"
    ctx.assumptions += [
        "memory safety and resource use cannot be proved by a TLA+ specification: this is supervised execution of a structure-aware "
        "mutation corpus (the operators of DESIGN §3.2) plus seeded random mutations; fault enumeration, not proof",
        "limits: no panic / abort / stack overflow on a 2 MiB stack; no single allocation request above 64 KiB and no peak above 1 MiB "
        "for a datagram of at most 1500 bytes",
        "node level: the recorded trace of a real node under flood is validated by TLC (spec/trace/NodeTrace.tla)",
    ]
    q = ctx.quick
    vlib.build_harness()
    corpus = ctx.path("corpus.hex")
    vlib.vh(["corpus", "--out", corpus, "--n", "3000" if q else "60000", "--seed", str(vlib.seed())])
    lines = open(corpus).read().split()
    # 1. decode worker under supervision
    import subprocess
    pos = 0
    results = 0
    distinct = len(set(lines))
    deaths = []
    limit_viol = []
    while pos < len(lines):
        p = subprocess.run([vlib.VH, "decode"], input="\n".join(lines[pos:]) + "\n", capture_output=True, text=True, timeout=1800,
                           preexec_fn=vlib.child_limits)
        outs = [json.loads(x) for x in p.stdout.splitlines() if x.startswith("{")]
        for r in outs:
            results += 1
            if r.get("panic") or r.get("big", 0) > 65536 or r.get("peak", 0) > 1048576:
                limit_viol.append((pos + r["i"], r))
        if p.returncode == 0 and len(outs) >= len(lines) - pos:
            break
        # the worker died on datagram pos + len(outs)
        bad = pos + len(outs)
        deaths.append((bad, p.returncode, p.stderr[-300:]))
        pos = bad + 1
        if len(deaths) > 20:
            break
    for bad, rc, err in deaths[:3]:
        path = vlib.save_replay(ctx.pid, "decode-death-%d.hex" % bad, content=lines[bad] + "\n")
        ctx.violation("decoding datagram #%d (%d bytes) killed the process (exit %s): %s" % (bad, len(lines[bad]) // 2, rc, err.strip()[-160:]), path)
    for idx, r in limit_viol[:3]:
        path = vlib.save_replay(ctx.pid, "decode-limit-%d.hex" % idx, content=lines[idx] + "\n")
        ctx.violation("decoding datagram #%d: %s" % (idx, json.dumps(r)), path)
    ctx.cov["evaluations"] = results
    ctx.cov["distinct_nontrivial"] = distinct
    ctx.cov["decode_worker"] = {"datagrams": len(lines), "decoded_or_rejected": results, "deaths": len(deaths), "limit_violations": len(limit_viol)}
    # 2. node level: flood a real serving node, then it must still serve and complete every API call
    small = ctx.path("corpus-node.hex")
    with open(small, "w") as f:
        step = max(1, len(lines) // (1500 if q else 6000))
        f.write("\n".join(lines[::step]) + "\n")
    # ... and searching nodes on hostile networks: solicited answers (right transaction id) with hostile node lists -- own id,
    # duplicates, one id at two addresses, unreachable nodes
    sc = [("flood", ["--scenario", "flood", "--corpus", small, "--seed", str(vlib.seed())])]
    sc += lookup_scenarios(ctx, "hostile", [12] if q else [5, 12, 30], [1, 2] if q else [1, 2, 3, 4])[:2 if q else 12]
    parts, _ = run_node_scenarios(ctx, sc, ["C14", "C05"], "flood")
    for p in parts:
        if p.crashed:
            ctx.violation("the node process died while receiving the datagram sequence", vlib.save_replay(ctx.pid, "flood-crash.ndjson", src_path=p.trace_file))
        elif not any('"ev":"End"' in l for l in open(p.trace_file)):
            ctx.violation("the scenario did not run to its end (node hung)", vlib.save_replay(ctx.pid, "flood-hang.ndjson", src_path=p.trace_file))
    node_verdict(ctx, parts, "flood")
    ctx.cov["rule"] = ("datagrams = 12 seed messages x (truncation at every offset, every length prefix x 23 magnitudes up to 2^128, every "
                       "integer x 17 limit values, every tree position x 8 wrong-type values) + nesting depths 1..1500 (lists, dicts, closed / "
                       "unclosed, bare / inside a valid message) + %s seeded random flips/splices; each decoded by the real decoder in a "
                       "supervised worker; distinct by content" % ("3000" if q else "60000"))
    ctx.cov["samples"] = [lines[1][:120], lines[len(lines) // 2][:120], "d1:t99999999999: (hex 64313a7439393939393939393939393a)"]


# ============================================================================ node-level: lookups (C02 C03 C04)

def lookup_scenarios(ctx, kind, sizes, seeds):
    s0 = vlib.seed()
    sc = [("%s-n%d-s%d" % (kind, n, s), ["--scenario", "lookup", "--kind", kind, "--n", str(n), "--seed", str(s0 % 1000 + s)])
          for n in sizes for s in seeds]
    if kind == "hostile":
        # C03's bounds (at most 8 announces, one token per node, yields justified) also need searches in which MANY nodes answer
        # with a token: cooperative networks of 20 / 100 nodes, judged here by the C03 statements only
        sc += [("coop-n%d-s%d" % (n, s), ["--scenario", "lookup", "--kind", "coop", "--n", str(n), "--seed", str(s0 % 1000 + s)])
               for n in ([20, 100] if ctx.quick else [9, 20, 100, 300]) for s in seeds[:1 if ctx.quick else 3]]
    return sc


LOOKUP_ASSUME = SERVER_ASSUME + [
    "scripted remote nodes (harness/src/sim.rs OracleNet) stand for the network: truthful / silent / delayed / error / garbage / hostile",
    "outstanding = sent by this search and not yet answered (a query that timed out is still counted outstanding, which only makes "
    "the monitor more permissive)",
]


LOOKUP_MC_CFG = """SPECIFICATION Spec
CONSTANTS
  FAMILY = "%(family)s"
  UNI = {%(uni)s}
  AnnounceC = TRUE
  EndgameQueriesAll = %(eg)s
INVARIANT Safety
INVARIANT CoopProps
INVARIANT CoopYields
%(live)s
CHECK_DEADLOCK FALSE
"""


def lookup_mc(ctx, families):
    """Design level: the search mechanism (spec/Lookup.tla) over every environment of the given families."""
    q = ctx.quick
    for fam in families:
        uni = {"coop": "1, 3, 6, 12" if q else "1, 3, 6, 9, 12", "timing": "1, 3, 6" if q else "1, 3, 6, 12"}[fam]
        if fam == "timing" and not q:
            uni = "1, 3, 6"   # 6^4 delay functions x 2 x 2 x starts do not finish within the budget; keep 3 nodes, all orders
        r = vlib.tlc("mc/MC_Lookup.tla", ctx.cfg("mclookup-%s.cfg" % fam, LOOKUP_MC_CFG % dict(
            family=fam, uni=uni, eg="TRUE", live="PROPERTY Terminates")), workers=8 if q else 16, timeout=1500 if q else 3400, heap="8g")
        vlib.require_mc_ok(r, "MC_Lookup(%s)" % fam)
        ctx.add_mc("MC_Lookup(%s, universe {%s}, ALPHA=2 BETA=2 ANN=2, safety + termination under fairness)" % (fam, uni), r)
    neg = vlib.tlc("mc/MC_Lookup.tla", ctx.cfg("mclookup-neg.cfg", LOOKUP_MC_CFG % dict(
        family="coop", uni="1, 3, 6, 12", eg="FALSE", live="")), workers=4, timeout=900)
    vlib.require_mc_fails(neg, "CoopProps", "EndgameQueriesAll=FALSE")


def lookup_check(ctx, kind, strict, sizes_q, sizes_t, seeds_q, seeds_t, what):
    ctx.level = "model_checking"
    lookup_mc(ctx, ["coop"] if kind == "coop" else ["timing"] if kind == "timing" else ["coop", "timing"])
    q = ctx.quick
    sc = lookup_scenarios(ctx, kind, sizes_q if q else sizes_t, seeds_q if q else seeds_t)
    parts, known = run_node_scenarios(ctx, sc, strict, kind)
    n, kinds = node_stats(ctx, parts)
    ctx.cov["distinct_nontrivial"] = kinds.get("LookupStart", 0)
    ctx.cov["traces_validated_against_impl"] = len(parts)
    ctx.cov["rule"] = what + "; a case = one search (LookupStart..Closed) of a real node; %d recorded runs" % len(parts)
    ctx.cov["samples"] = [l for l in vlib.head_lines(parts[0].trace_file, 600, 260) if '"LookupStart"' in l or '"Closed"' in l or '"Yield"' in l][:4] or vlib.head_lines(parts[0].trace_file, 3, 200)
    if kinds.get("LookupStart", 0) < 2:
        raise ToolError("vacuous run: fewer than 2 searches were started")
    node_verdict(ctx, parts, kind)


def check_C02(ctx):
    ctx.assumptions += LOOKUP_ASSUME
    lookup_check(ctx, "coop", ["C02"], [1, 2, 5, 9, 20, 100], [1, 2, 5, 8, 9, 20, 100, 1000], [1, 2, 3], list(range(1, 11)),
                 "cooperative oracle networks of N nodes (uniform / clustered around the target / around the searcher), answers within "
                 "one second naming the truly closest nodes, peers of both families on random nodes, serving and read-only searcher, "
                 "announce port set or not")


def check_C03(ctx):
    ctx.assumptions += LOOKUP_ASSUME
    lookup_check(ctx, "hostile", ["C03"], [5, 12, 30], [5, 12, 30, 100], [1, 2, 3, 4], list(range(1, 17)),
                 "hostile networks: loss 0-30 %, duplication, delays up to 5 s, and for 40 % of the nodes forged responses (replayed id, "
                 "right id from another source, id one byte too long, changed id, ids of earlier queries, node lists naming the searcher "
                 "itself / duplicates / unreachable nodes), two concurrent searches; plus cooperative networks of 20 / 100 nodes (many token holders)")


def check_C04(ctx):
    ctx.assumptions += LOOKUP_ASSUME + ["'no good node => immediate close' is checked for searches started after the initial bootstrap (DESIGN §5 C04 scope note)"]
    lookup_check(ctx, "timing", ["C04"], [3, 10, 40], [1, 3, 10, 40, 100], [0, 1, 2, 3, 4, 5], list(range(0, 18)),
                 "timing networks: total silence, answers after 0 / 1499 / 1500 / 1501 / 2999 ms, error replies, garbage, chains in "
                 "which every answer names one closer node (as deep as the universe), send failures for a third of the nodes and for all")


# ============================================================================ node-level: maintenance / bootstrap (C11 C15 C16 C18)

def maint_scenarios(ctx, minutes_q=60, minutes_t=150):
    """(peers, silent-mask, given all / only the first, send failure towards the last peer, seed)"""
    s0 = vlib.seed() % 1000
    q = ctx.quick
    mins = minutes_q if q else minutes_t
    combos = [(1, 0, 1, 0), (2, 0b10, 1, 0), (3, 0b010, 0, 0), (3, 0, 0, 0), (5, 0b10100, 0, 0), (8, 0b01010100, 1, 0),
              (12, 0, 1, 0), (11, 0b100, 0, 0), (4, 0b1000, 0, 1)]
    if not q:
        combos += [(p, m, g, 0) for p in (2, 3, 4, 6, 7, 8, 10, 12) for m in (0, 0b10, 0b0101010, 0b11111110) for g in (0, 1)]
    out = []
    for k, (p, m, g, f) in enumerate(combos):
        out.append(("maint-p%d-m%d-g%d-f%d" % (p, m, g, f),
                    ["--scenario", "maint", "--peers", str(p), "--minutes", str(mins), "--seed", str(s0 + k), "--mask", str(m),
                     "--given", str(g), "--sendfail", str(f)]))
    # two bootstrap contacts that do not know each other (the second is never named, names nobody and answers slowly)
    for k, p in enumerate((5, 7) if q else (3, 4, 5, 6, 7, 8)):
        out.append(("maint-strangers-p%d" % p,
                    ["--scenario", "maint", "--peers", str(p), "--minutes", str(20 if q else 60), "--seed", str(s0 + 100 + k), "--mask", "0",
                     "--given", "0", "--sendfail", "0", "--strangers", "1"]))
    return out


def generic_node_check(ctx, scenarios, strict, what, rule, min_events=None):
    ctx.level = "model_checking" if ctx.cov["states"] > 0 else "exploration"
    parts, known = run_node_scenarios(ctx, scenarios, strict, what)
    n, kinds = node_stats(ctx, parts)
    ctx.cov["traces_validated_against_impl"] = len(parts)
    ctx.cov["rule"] = rule + "; %d recorded runs of real nodes, every line consumed by TLC (spec/trace/NodeTrace.tla)" % len(parts)
    if min_events:
        for ev, k in min_events.items():
            if kinds.get(ev, 0) < k:
                raise ToolError("vacuous run: only %d %s events (need %d)" % (kinds.get(ev, 0), ev, k))
        ctx.cov["distinct_nontrivial"] = sum(kinds.get(ev, 0) for ev in min_events)
    ctx.cov["samples"] = vlib.head_lines(parts[0].trace_file, 30, 240)[-3:]
    node_verdict(ctx, parts, what)
    return parts, kinds


MAINT_MC_CFG = """SPECIFICATION Spec
CONSTANTS
  CONTACTS = {%(contacts)s}
  RTT = %(rtt)d
  REBOOTSTRAP = %(reboot)s
  HORIZON = %(horizon)d
  SILENT_AT = {0, 10000, 898000, 900000%(more)s}
  AskAgainWhileUnanswered = %(again)s
INVARIANT ResponsiveNeverLost
INVARIANT QuestionableAtMost30s
INVARIANT SilentGoneBy
CHECK_DEADLOCK FALSE
"""


def maintenance_mc(ctx):
    """Design level (spec/Maintenance.tla): status rules + refresh cadence + re-bootstrap passes over every partition of the contacts
    into always-answering / silent-from-t, both regimes, short and long round trips; the pinned bootstrap pass must be caught."""
    q = ctx.quick
    for reboot in ("TRUE", "FALSE"):
        for rtt in (2, 1998):
            r = vlib.tlc("mc/MC_Maintenance.tla", ctx.cfg("mcmaint-%s-%d.cfg" % (reboot, rtt), MAINT_MC_CFG % dict(
                contacts="1, 2, 3" if q else "1, 2, 3, 4", rtt=rtt, reboot=reboot, horizon=2400000 if q else 3600000,
                more="", again="FALSE")), workers=4 if q else 16, timeout=1500 if q else 3400, heap="6g")
            vlib.require_mc_ok(r, "MC_Maintenance")
            ctx.add_mc("MC_Maintenance(re-bootstrap=%s, RTT=%d ms)" % (reboot, rtt), r)
    neg = vlib.tlc("mc/MC_Maintenance.tla", ctx.cfg("mcmaint-neg.cfg", MAINT_MC_CFG % dict(
        contacts="1, 2", rtt=1998, reboot="TRUE", horizon=1200000, more="", again="TRUE")), workers=4, timeout=900)
    vlib.require_mc_fails(neg, "ResponsiveNeverLost", "AskAgainWhileUnanswered=TRUE")


def check_C11(ctx):
    maintenance_mc(ctx)
    ctx.assumptions += LOOKUP_ASSUME + ["contacts are sampled through load_contacts() every 5 virtual seconds: bounds carry a 5 s sampling slack",
                                        "premises of C11: loss-free network, no bucket full (at most 12 contacts in distinct buckets)"]
    generic_node_check(ctx, maint_scenarios(ctx), ["C11"], "maint",
                       "one real node with 1..12 scripted contacts, every partition into always-answering / silent-from-t "
                       "(t = 10 s, 14 min 58 s, 15 min, half-way, random), given directly or learned by hearsay, with and without "
                       "interleaved searches; a case = one load_contacts() sample", {"ApiContacts": 500})


HANDLER_MC_CFG = """SPECIFICATION Spec
CONSTANTS
  CancelPending = %(cancel)s
  QueueEarly = %(queue)s
  REFRESH_MS = 6000
  MAXROUNDS = %(rounds)d
  WAITERS = {1%(w2)s}
  SEARCHES = {1, 2}
  TICKS = {5000}
  MAXTIME = %(maxtime)d
INVARIANT AtMostOneRefreshTimer
INVARIANT RoundsBounded
INVARIANT NoLookupBeforeInitialBootstrap
INVARIANT QueuedAreStarted
INVARIANT WaitersToldOnSuccess
CHECK_DEADLOCK FALSE
"""


def handler_mc(ctx, guard):
    """Design level: timers / refresh chain / waiters / early-search queue of the event loop (spec/Handler.tla); the pinned-tree
    policy named by `guard` must be caught."""
    q = ctx.quick
    r = vlib.tlc("mc/MC_Handler.tla", ctx.cfg("mchandler.cfg", HANDLER_MC_CFG % dict(
        cancel="TRUE", queue="TRUE", rounds=5 if q else 7, w2="" if q else ", 2", maxtime=30000 if q else 40000)),
        workers=8 if q else 16, timeout=900 if q else 3400, heap="8g" if q else "24g")
    vlib.require_mc_ok(r, "MC_Handler")
    ctx.add_mc("MC_Handler(re-bootstraps x timers x waiters x early searches)", r)
    neg = vlib.tlc("mc/MC_Handler.tla", ctx.cfg("mchandler-neg.cfg", HANDLER_MC_CFG % dict(
        cancel="FALSE" if guard == "C18" else "TRUE", queue="FALSE" if guard == "C16" else "TRUE", rounds=5, w2="", maxtime=30000)),
        workers=4, timeout=600)
    if guard in ("C18", "C16") and neg.no_error:
        raise ToolError("vacuity guard: the pinned-tree policy for %s was not caught by MC_Handler" % guard)


def check_C18(ctx):
    handler_mc(ctx, "C18")
    ctx.assumptions += LOOKUP_ASSUME + ["refresh rounds are observed through hook H3 (RefreshRound) because a round that pings nobody is invisible on the wire"]
    sc = maint_scenarios(ctx, 45, 360)
    sc = [sc[0], sc[2], sc[3], sc[6], sc[8]] if ctx.quick else sc[:30]
    generic_node_check(ctx, sc, ["C18"], "maint",
                       "hours of virtual time with hundreds to thousands of re-bootstrap cycles (networks with fewer than 10 good nodes "
                       "re-bootstrap every 5 s); a case = one refresh round, checked against sliding windows of 30 s / 2 min / 20 min",
                       {"RefreshRound": 300, "BootSuccess": 50})


BOOT_MC_CFG = """SPECIFICATION Spec
CONSTANTS
  CAP = %(cap)d
  NCONTACTS = %(n)d
  ROUTERS = FALSE
  GOODFOUND = 3
  BUCKET_MS = %(bucket)d
  MAXATTEMPTS = 16
INVARIANT ResponsiveBound
INVARIANT NoSuccessBeforeAnswer
CHECK_DEADLOCK FALSE
"""


def check_C15(ctx):
    handler_mc(ctx, "C15")
    # timing of the bootstrap worker (spec/Bootstrap.tla): whatever the outage, 11 minutes after the network comes back;
    # a back-off capped at 2^10 s instead of 2^9 s must violate the bound
    for n, bucket in ((1, 0), (30, 80000)):
        r = vlib.tlc("mc/MC_Bootstrap.tla", ctx.cfg("mcboot-%d.cfg" % n, BOOT_MC_CFG % dict(cap=9, n=n, bucket=bucket)), workers=2, timeout=300)
        vlib.require_mc_ok(r, "MC_Bootstrap")
        ctx.add_mc("MC_Bootstrap(contacts=%d, bucket phase %d ms, outage ending after any attempt)" % (n, bucket), r)
    neg = vlib.tlc("mc/MC_Bootstrap.tla", ctx.cfg("mcboot-neg.cfg", BOOT_MC_CFG % dict(cap=10, n=30, bucket=80000)), workers=2, timeout=300)
    vlib.require_mc_fails(neg, "ResponsiveBound", "CAP=10")
    ctx.assumptions += LOOKUP_ASSUME + ["routers are given as IP literals (the sandbox has no DNS)",
                                        "the 11-minute bound is checked for plain-node configurations from the instant the network becomes reachable"]
    seeds = list(range(0, 16)) if ctx.quick else list(range(0, 70))
    sc = [("boot-s%d" % s, ["--scenario", "boot", "--seed", str(s + (vlib.seed() % 7) * 8)]) for s in seeds]
    generic_node_check(ctx, sc, ["C15"], "boot",
                       "builder configurations (no contacts; 1..30 plain nodes some silent / erroring / answering garbage; a contact given both "
                       "as node and as router; duplicated routers), outages from 0 s to 2 h with flapping, 1..6 bootstrapped() callers "
                       "registered before, during and after outages and re-bootstraps; a case = one waiter", {"ApiBootWait": 20})


def check_C16(ctx):
    handler_mc(ctx, "C16")
    ctx.assumptions += LOOKUP_ASSUME + ["the twin search is issued right after bootstrapped() resolves; the oracle network is static, so both must yield the same multiset"]
    seeds = list(range(0, 15)) if ctx.quick else list(range(0, 60))
    sc = [("early-s%d" % s, ["--scenario", "early", "--seed", str(s + (vlib.seed() % 5) * 15)]) for s in seeds]
    generic_node_check(ctx, sc, ["C16"], "early",
                       "search() before the first datagram, during the initial round, during the bucket phase, during the back-off after a failed "
                       "first attempt and after completion; 1..4 early searches (same hash with and without announce); a case = one search",
                       {"ApiSearch": 30})


# =========================================================================================== C01

E2E_MC_CFG = """SPECIFICATION Spec
CONSTANTS
  NODES = {%(nodes)s}
  DELTAS = {2000, 660000, 1260000, 3600000, 86395000, 86405000, 90000000}
  PAUSES = {%(pauses)s}
  MAXSTEPS = %(steps)d
INVARIANT E2E
CHECK_DEADLOCK FALSE
"""


def check_C01(ctx):
    q = ctx.quick
    r = vlib.tlc("mc/MC_E2E.tla", ctx.cfg("mce2e.cfg", E2E_MC_CFG % dict(nodes='"a", "b", "c"', pauses="1000, 3000", steps=7 if q else 9)),
                 workers=8 if q else 16, timeout=900 if q else 3400, heap="8g" if q else "24g")
    vlib.require_mc_ok(r, "MC_E2E")
    ctx.add_mc("MC_E2E(3 nodes: token stores + peer stores, announce in two phases, time alphabet seconds..25 h)", r)
    # vacuity guard: a search that dawdles 21 minutes between get_peers and announce_peer presents dead tokens
    neg = vlib.tlc("mc/MC_E2E.tla", ctx.cfg("mce2e-neg.cfg", E2E_MC_CFG % dict(nodes='"a", "b"', pauses="1300000", steps=5)), workers=4, timeout=600)
    vlib.require_mc_fails(neg, "E2E", "PAUSES={21 min}")
    ctx.assumptions += LOOKUP_ASSUME + [
        "runs of many virtual hours are recorded in projection mode: only the lines that can touch token stores, peer stores and search "
        "records (get_peers / announce_peer steps, search API lines) are written; find_node / ping maintenance traffic is not",
        "the few seconds in which storing nodes disagree about expiry are left unspecified: 'found' is demanded while EVERY "
        "acknowledging node still holds the pair, 'not found' once 24 h have passed since the LAST acknowledgement anywhere",
    ]
    s0 = vlib.seed() % 1000
    q = ctx.quick
    sc = [("e2e-n%d-s%d" % (n, s), ["--scenario", "e2e", "--n", str(n), "--seed", str(s0 + s)])
          for n, s in ([(2, 0), (3, 1), (4, 2), (5, 3), (9, 4)] if q else [(n, s) for n in range(2, 10) for s in range(0, 4)])]
    sc += [("e2e-long-n%d-s%d" % (n, s), ["--scenario", "e2e", "--n", str(n), "--long", "1", "--seed", str(s0 + s)])
           for n, s in ([(2, 5), (3, 8 - (s0 % 2))] if q else [(2, 5), (3, 6), (4, 7), (2, 8 - (s0 % 2)), (3, 10 - (s0 % 2)), (4, 12 - (s0 % 2))])]
    generic_node_check(ctx, sc, ["C01"], "e2e",
                       "2..9 real serving nodes that all know each other (IPv4 / IPv6, random and adversarially clustered ids, announce port set "
                       "or not, per-datagram latency uniform below 1 s): announcing searches and searches by every other node in random order, "
                       "separated by gaps from 1 s to 2 h, and runs crossing 23 h 59 m / 24 h 01 m / 25 h; a case = one search",
                       {"ApiSearch": 40})



# ============================================================================================ --replay

def replay(ctx, path):
    """bin/check <ID> quick --replay <file>: re-validate a recorded trace (the replay file of a violation) against the trace
    specification with StrictProps = {ID}; a `.hex` datagram is fed to the decode worker of the CURRENT tree."""
    import subprocess
    base = os.path.basename(path)
    ctx.cov["samples"] = vlib.head_lines(path, 2, 300)
    ctx.cov["evaluations"] = 1
    ctx.cov["distinct_nontrivial"] = 2
    ctx.cov["rule"] = "replay of %s" % base
    if base.endswith(".hex"):
        vlib.build_harness()
        data = open(path).read()
        p = subprocess.run([vlib.VH, "decode"], input=data, capture_output=True, text=True, timeout=600, preexec_fn=vlib.child_limits)
        outs = [json.loads(x) for x in p.stdout.splitlines() if x.startswith("{")]
        bad = p.returncode != 0 or any(r.get("panic") or r.get("big", 0) > 65536 or r.get("peak", 0) > 1048576 for r in outs)
        if bad:
            ctx.violation("the datagram still kills / overloads the decoder (exit %s)" % p.returncode, path)
        return
    table = [("token-store", "trace/TokenTrace.tla"), ("peer-store", "trace/PeerTrace.tla"), ("routing-table", "trace/TableTrace.tla"),
             ("txn-ids", "trace/TxnTrace.tla"), ("bep42", "trace/Bep42Trace.tla"), ("wire-", "trace/WireTrace.tla")]
    tla = "trace/NodeTrace.tla"
    for key, t in table:
        if key in base:
            tla = t
    tmp = ctx.path("replay.ndjson")
    with open(tmp, "w") as f:
        f.write(open(path).read())
    cfg = ctx.cfg("replay.cfg", NODE_TV_CFG % ('"%s"' % ctx.pid))
    tv = vlib.validate_trace(tla, cfg, tmp, timeout=3000, heap="8g")
    ctx.add_tv("replay", tv, 1, 1)
    if not tv.accepted:
        why = "; ".join(tv.chkfails[:3]) or "rejected at line %s" % tv.rejected_at
        ctx.violation("replayed trace is rejected: %s" % why, path)
