"""Per-property checks.  Each check_Cxx(ctx) runs: MC of the design (TLC, exhaustive or simulate),
a deliberately broken variant of the model that MUST be caught (vacuity guard), and the binding
of the specification to the code (MBT generation -> replay in the real code -> trace validation
by TLC, and/or recorded executions -> trace validation)."""
import json
import os
import time

import vlib
from vlib import ToolError, log


class Ctx:
    def __init__(self, pid, tier, replay=None):
        self.pid = pid
        self.tier = tier
        self.quick = tier != "thorough"
        self.replay = replay
        self.violations = []   # (description, replay path)
        self.known = []        # known-finding descriptions met in this run
        self.cov = {"states": 0, "transitions": 0, "traces_validated_against_impl": 0,
                    "samples": [], "evaluations": 0, "distinct_nontrivial": 0, "rule": "",
                    "checker_cmd": "", "mc_runs": [], "tv_runs": [], "drift": 0}
        self.assumptions = []
        self.level = "model_checking"
        self.work = vlib.workdir(pid)

    # -- bookkeeping ----------------------------------------------------------------------
    def add_mc(self, name, res):
        self.cov["states"] += res.distinct
        self.cov["transitions"] += res.generated
        self.cov["mc_runs"].append({"config": name, "distinct_states": res.distinct,
                                    "states_generated": res.generated, "depth": res.depth,
                                    "wall_s": round(res.wall, 1)})
        if not self.cov["checker_cmd"]:
            self.cov["checker_cmd"] = res.cmd

    def add_tv(self, name, tv, behaviours, distinct):
        self.cov["traces_validated_against_impl"] += behaviours
        self.cov["evaluations"] += behaviours
        self.cov["distinct_nontrivial"] += distinct
        self.cov["drift"] += len(tv.drifts)
        self.cov["tv_runs"].append({"trace": name, "lines": tv.nlines, "behaviours": behaviours,
                                    "distinct": distinct, "accepted": tv.accepted,
                                    "drift_reports": len(tv.drifts), "wall_s": round(tv.res.wall, 1)})

    def violation(self, desc, path):
        self.violations.append((desc, path))

    def write_evidence(self, wall, tool_error=None):
        cov = dict(self.cov)
        if tool_error:
            cov["tool_error"] = tool_error
        if not cov["samples"]:
            cov["samples"] = ["(none: run ended before any case was produced)"]
        vlib.write_evidence(self.pid, self.tier, self.level, cov, self.assumptions, wall,
                            len(self.violations))

    def cfg(self, name, text):
        p = os.path.join(self.work, name)
        with open(p, "w") as f:
            f.write(text)
        return p

    def path(self, name):
        return os.path.join(self.work, name)


def tv_verdict(ctx, tv, trace_file, what):
    """Turn a trace-validation result into a verdict for ctx.pid."""
    if tv.accepted:
        return True
    # rejected: the failing constraint(s) are in CHKFAIL lines; keep the trace as replay
    name = "%s-%s.ndjson" % (what, time.strftime("%H%M%S"))
    dst = vlib.save_replay(ctx.pid, name, src_path=trace_file)
    why = "; ".join(tv.chkfails[:3]) or "trace rejected at line %s" % tv.rejected_at
    ctx.violation("%s: %s (line %s of %s)" % (what, why, tv.rejected_at, dst), dst)
    return False


# =========================================================================================== C06

TOKEN_CFG = """SPECIFICATION Spec
CONSTANTS
  ROT = 600000
  IPS = {%(ips)s}
  DELTAS = {%(deltas)s}
  MAXSTEPS = %(steps)d
  KEEP_BOTH = %(keep)s
  GEN = %(gen)s
INVARIANT VerdictsOK
%(emit)s
CHECK_DEADLOCK FALSE
"""
TOKEN_DELTAS = "1, 999, 1000, 599000, 599999, 600000, 1199999, 1200000, 1800000"


def check_C06(ctx):
    ctx.assumptions += [
        "TLC and the CommunityModules Json/IOUtils modules are correct",
        "tokio's paused clock drives crate::time::Instant (hook H1)",
        "the harness transports observations faithfully (vh tokens)",
        "MC is exhaustive only up to MAXSTEPS events over the boundary alphabet of time steps",
    ]
    q = ctx.quick
    ips = '"a4", "b4", "c6"'
    # 1. design-level: mechanism vs. history statement, exhaustive
    res = vlib.tlc("mc/MC_Token.tla", ctx.cfg("mc.cfg", TOKEN_CFG % dict(
        ips=ips, deltas=TOKEN_DELTAS, steps=5 if q else 7, keep="TRUE", gen="FALSE", emit="")),
        workers=8 if q else 16, timeout=600 if q else 3000, heap="8g" if q else "24g")
    vlib.require_mc_ok(res, "MC_Token")
    ctx.add_mc("MC_Token(steps=%d)" % (5 if q else 7), res)
    # 2. vacuity guard: a mechanism that forgets the previous secret must be caught
    neg = vlib.tlc("mc/MC_Token.tla", ctx.cfg("neg.cfg", TOKEN_CFG % dict(
        ips=ips, deltas=TOKEN_DELTAS, steps=5, keep="FALSE", gen="FALSE", emit="")), workers=4, timeout=600)
    vlib.require_mc_fails(neg, "VerdictsOK", "KEEP_BOTH=FALSE")
    # 3. binding: behaviours of the model replayed against the real TokenStore
    beh = ctx.path("behaviours.ndjson")
    g1 = vlib.tlc("mc/MC_Token.tla", ctx.cfg("gen1.cfg", TOKEN_CFG % dict(
        ips=ips, deltas=TOKEN_DELTAS, steps=3 if q else 4, keep="TRUE", gen="TRUE", emit="INVARIANT Emit")),
        workers=1, timeout=1200)
    n1 = vlib.extract_replays(g1, beh + ".1")
    depth = 30 if q else 60
    g2 = vlib.tlc("mc/MC_Token.tla", ctx.cfg("gen2.cfg", TOKEN_CFG % dict(
        ips=ips, deltas=TOKEN_DELTAS + ", 30000, 300000", steps=depth, keep="TRUE", gen="TRUE", emit="INVARIANT Emit")),
        workers=1, timeout=1200, simulate=40 if q else 400, depth=depth + 1, seed_=vlib.seed())
    n2 = vlib.extract_replays(g2, beh + ".2")
    with open(beh, "w") as f:
        for p in (beh + ".1", beh + ".2"):
            f.write(open(p).read())
    if n1 == 0 or n2 == 0:
        raise ToolError("behaviour generation produced nothing (%d, %d)" % (n1, n2))
    trace = ctx.path("trace.ndjson")
    vlib.vh(["tokens", "--in", beh, "--out", trace])
    tv = vlib.validate_trace("trace/TokenTrace.tla", "trace/TokenTrace.cfg", trace, timeout=1800, heap="8g")
    total, distinct = vlib.count_distinct_behaviours(beh)
    nontrivial = sum(1 for line in open(beh) if '"ann"' in line and '"get"' in line)
    ctx.add_tv("tokens", tv, total, min(distinct, nontrivial))
    ctx.cov["rule"] = ("behaviours = all operation sequences of the TLA+ model MC_Token up to depth %d "
                       "(exhaustive) plus %d simulated ones of depth %d; distinct by content hash; "
                       "non-trivial = contains at least one get_peers and one announce"
                       % (3 if q else 4, n2, depth))
    ctx.cov["samples"] = vlib.head_lines(beh + ".2", 2) + vlib.head_lines(trace, 4)
    ctx.cov["exhaustive"] = False
    if tv.drifts:
        log("DRIFT (mechanism differs from TokenStore.tla, no property involved): %d reports, first: %s"
            % (len(tv.drifts), tv.drifts[0]))
    tv_verdict(ctx, tv, trace, "token-store MBT")


# =========================================================================================== C07

PEER_CFG = """SPECIFICATION Spec
CONSTANTS
  CAP = %(cap)d
  TTL = 86400000
  HASHES = {"h1", "h2"}
  ADDRS = {%(addrs)s}
  DELTAS = {%(deltas)s}
  FILLS = {%(fills)s}
  MAXSTEPS = %(steps)d
  GEN = %(gen)s
  RENEW_MOVES = %(moves)s
%(invs)s
CHECK_DEADLOCK FALSE
"""
PEER_INVS = "INVARIANT ChecksOK\nINVARIANT QueueSorted\nINVARIANT ViewsAgree\nINVARIANT Bounded"
PEER_ADDRS = '"a4:1", "a4:2", "b4:1", "c6:1"'
PEER_DELTAS = "1, 43200000, 86399999, 86400000, 86400001"


def gen_peer_bulk(path, seed_, count):
    """Seeded random behaviours for the production-size store (see check_C07)."""
    import random
    rnd = random.Random(seed_)
    H = ["h1", "h2", "h3"]
    DAY = 86400000
    with open(path, "w") as f:
        for b in range(count):
            ops, fresh = [], 0
            for _ in range(rnd.randint(8, 24)):
                r = rnd.random()
                if r < 0.30:
                    n = rnd.choice([1, 2, 5, 100, 249, 250, 251, 499, 500, 501])
                    ops.append({"op": "fill", "ih": rnd.choice(H), "n": n, "first": fresh})
                    fresh += n
                elif r < 0.45:
                    ops.append({"op": "renew", "ih": rnd.choice(H), "k": rnd.choice([1, 2, 3, 7])})
                elif r < 0.60:
                    ops.append({"op": "add", "ih": rnd.choice(H), "addr": rnd.choice(["a4:1", "a4:2", "b4:1", "c6:1", "c6:2"])})
                elif r < 0.80:
                    ops.append({"op": "find", "ih": rnd.choice(H)})
                else:
                    ops.append({"op": "adv", "d": rnd.choice([1, 1000, 3600000, DAY // 2, DAY - 3600000, DAY - 1, DAY, DAY + 1,
                                                               rnd.randint(1, DAY)])})
            ops.append({"op": "find", "ih": "h1"})
            ops.append({"op": "find", "ih": "h2"})
            f.write(json.dumps(ops) + "\n")
    return count


def check_C07(ctx):
    ctx.assumptions += [
        "TLC and the CommunityModules are correct; tokio's paused clock drives the crate clock (H1)",
        "component level only sees AnnounceStorage; the wire path (ports, family filter, 202) is covered by the node-level server traces",
        "MC exhaustive for CAP=3 up to MAXSTEPS events; production CAP=500 covered by seeded random bulk behaviours",
    ]
    q = ctx.quick
    res = vlib.tlc("mc/MC_PeerStore.tla", ctx.cfg("mc.cfg", PEER_CFG % dict(
        cap=3, addrs=PEER_ADDRS, deltas=PEER_DELTAS, fills="", steps=5 if q else 7, gen="FALSE", moves="TRUE",
        invs=PEER_INVS)), workers=8 if q else 16, timeout=600 if q else 3400, heap="8g" if q else "24g")
    vlib.require_mc_ok(res, "MC_PeerStore")
    ctx.add_mc("MC_PeerStore(CAP=3,steps=%d)" % (5 if q else 7), res)
    neg = vlib.tlc("mc/MC_PeerStore.tla", ctx.cfg("neg.cfg", PEER_CFG % dict(
        cap=3, addrs=PEER_ADDRS, deltas=PEER_DELTAS, fills="", steps=6, gen="FALSE", moves="FALSE",
        invs=PEER_INVS)), workers=8, timeout=900)
    if neg.no_error:
        raise ToolError("vacuity guard: in-place renewal variant was not caught by MC_PeerStore")
    # binding 1: all small behaviours (exhaustive) against the real store
    beh = ctx.path("behaviours.ndjson")
    g1 = vlib.tlc("mc/MC_PeerStore.tla", ctx.cfg("gen1.cfg", PEER_CFG % dict(
        cap=3, addrs='"a4:1", "b4:1", "c6:1"', deltas="43200000, 86399999, 86400000, 86400001", fills="",
        steps=4 if q else 5, gen="TRUE", moves="TRUE", invs="INVARIANT Emit")), workers=1, timeout=1800)
    n1 = vlib.extract_replays(g1, beh + ".1")
    # binding 2: production capacity -- seeded random bulk behaviours over the same operation alphabet
    # (fill / renew / add / find / adv) crossing the 500-pair limit and the 24 h boundary over several days.
    # (TLC -simulate on the CAP=500 model costs ~2 s per Fill successor; kept for the thorough MC only.)
    n2 = gen_peer_bulk(beh + ".2", vlib.seed(), 12 if q else 120)
    if not q:
        g2 = vlib.tlc("mc/MC_PeerStore.tla", ctx.cfg("mc500.cfg", PEER_CFG % dict(
            cap=500, addrs='"a4:1", "c6:1"', deltas="3600000, 86399999, 86400001",
            fills="250, 499, 501", steps=8, gen="FALSE", moves="TRUE", invs="INVARIANT ChecksOK\nINVARIANT Bounded")),
            workers=8, timeout=2400, simulate=2, depth=9, seed_=vlib.seed())
        if g2.inv_violated:
            raise ToolError("MC_PeerStore(CAP=500) simulate run violated %s" % g2.inv_violated)
        ctx.add_mc("MC_PeerStore(CAP=500,simulate)", g2)
    if n1 == 0 or n2 == 0:
        raise ToolError("behaviour generation produced nothing (%d, %d)" % (n1, n2))
    with open(beh, "w") as f:
        for p in (beh + ".1", beh + ".2"):
            f.write(open(p).read())
    trace = ctx.path("trace.ndjson")
    vlib.vh(["peers", "--in", beh, "--out", trace])
    tv = vlib.validate_trace("trace/PeerTrace.tla", "trace/PeerTrace.cfg", trace, timeout=3000, heap="12g")
    total, distinct = vlib.count_distinct_behaviours(beh)
    nontrivial = sum(1 for line in open(beh) if '"find"' in line and ('"add"' in line or '"fill"' in line))
    ctx.add_tv("peers", tv, total, min(distinct, nontrivial))
    ctx.cov["rule"] = ("behaviours = all operation sequences of MC_PeerStore (CAP=3 alphabet) up to depth %d replayed on the "
                       "real 500-pair store, plus %d seeded random behaviours with bulk fill/renew steps crossing the 500 "
                       "limit and the 24 h boundary; non-trivial = at least one add/fill and one find" % (4 if q else 5, n2))
    ctx.cov["samples"] = vlib.head_lines(beh + ".2", 1, 900) + vlib.head_lines(trace, 5)
    if tv.drifts:
        log("DRIFT (mechanism differs from PeerStore.tla, no property involved): %d reports, first: %s"
            % (len(tv.drifts), tv.drifts[0]))
    tv_verdict(ctx, tv, trace, "peer-store MBT")
