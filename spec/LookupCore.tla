------------------------------- MODULE LookupCore -------------------------------
(***************************************************************************)
(* The search procedure of src/action/lookup.rs (TableLookup) as PURE step *)
(* operators on a state record -- the mechanism shared by the design-level *)
(* model (Lookup.tla, where an environment decides who answers and which   *)
(* datagrams can be sent) and by the node-level trace specification        *)
(* (trace/NodeTrace.tla, where the recorded datagrams decide), which       *)
(* predicts from it the destination of every get_peers query and every     *)
(* announce_peer of every search, datagram by datagram.                    *)
(*                                                                         *)
(* State of one search                                                     *)
(*   t          the target (info-hash)                                     *)
(*   cands      all_sorted_nodes: sequence of [h, pinged], by distance     *)
(*   active     active_lookups: transaction id -> the id whose distance    *)
(*              the answer has to beat ("distance to beat" is always the   *)
(*              distance of some id, so the id stands for it)              *)
(*   timedout   timed_out_lookups                                          *)
(*   requested  requested_nodes (handles)                                  *)
(*   toks       the handles that sent an announce token                    *)
(*   eg         in_endgame                                                 *)
(*   amb        TRUE once insert_sorted_node met two entries with the id   *)
(*              it was looking for: which one the binary search lands on   *)
(*              is a detail of the standard library (see InsertSorted)     *)
(*                                                                         *)
(* A handle h is a record with at least the field id.  A step that sends   *)
(* is split in two: the operator that returns the picks (whom the code     *)
(* tries to query, in order) and the operator that applies the outcome of  *)
(* the attempts (transaction ids drawn, which sends succeeded).            *)
(***************************************************************************)
EXTENDS Integers, Sequences, FiniteSets, TLC

CONSTANTS Closer(_, _, _),        \* Closer(t, a, b): id a is strictly closer to t than id b (XOR metric)
          ALPHA, BETA, ANN, MAXC  \* 4, 3, 8, 8 in the code

LOCAL Min2(a, b) == IF a < b THEN a ELSE b
LOCAL FSet(f, k, v) == [x \in DOMAIN f \cup {k} |-> IF x = k THEN v ELSE f[x]]
LOCAL FDel(f, k) == [x \in DOMAIN f \ {k} |-> f[x]]
LOCAL InsertAt(s, i, x) == SubSeq(s, 1, i - 1) \o <<x>> \o SubSeq(s, i, Len(s))

\* ---- insert_sorted_node
\* The binary search by distance finds an entry with the same id, if there is one.  When several entries share the id (same
\* id, different addresses) the code takes whichever the search lands on: with the standard library the crate is built with
\* (core::slice::binary_search_by since 1.82: base moves right on Less AND on Equal) that is the LAST of them.  `amb` records
\* that a search went through such a point, where the prediction rests on that library detail.
SameId(cs, id) == {i \in 1..Len(cs) : cs[i].h.id = id}
InsertSorted(cs, t, h, pinged) ==
    LET same == SameId(cs, h.id) IN
    IF same # {} THEN
        \* Ok(dup_index): inserted (before the entry found) only if the handle differs from THAT entry
        LET i == CHOOSE j \in same : \A k \in same : k <= j IN
        IF cs[i].h = h THEN cs ELSE InsertAt(cs, i, [h |-> h, pinged |-> pinged])
    ELSE LET k == Cardinality({i \in 1..Len(cs) : Closer(t, cs[i].h.id, h.id)}) IN
         InsertAt(cs, k + 1, [h |-> h, pinged |-> pinged])
AmbiguousInsert(cs, h) ==
    LET same == SameId(cs, h.id) IN
    Cardinality(same) >= 2 /\ ~(\A j \in same : cs[j].h = h)

RECURSIVE InsertAll(_, _, _, _)
InsertAll(cs, t, hs, picked) ==
    IF hs = <<>> THEN cs ELSE InsertAll(InsertSorted(cs, t, Head(hs), Head(hs) \in picked), t, Tail(hs), picked)
RECURSIVE AnyAmbiguous(_, _, _, _)
AnyAmbiguous(cs, t, hs, picked) ==
    IF hs = <<>> THEN FALSE
    ELSE AmbiguousInsert(cs, Head(hs)) \/ AnyAmbiguous(InsertSorted(cs, t, Head(hs), Head(hs) \in picked), t, Tail(hs), picked)

\* ---- pick_iterate_nodes / insert_closest_nodes: BETA slots; a closer node REPLACES the first farther one (no shifting)
NoSlot == [used |-> FALSE]
RECURSIVE PlaceIn(_, _, _, _)
PlaceIn(slots, t, h, i) ==
    IF i > Len(slots) THEN slots
    ELSE IF ~slots[i].used THEN [slots EXCEPT ![i] = [used |-> TRUE, h |-> h]]
    ELSE IF Closer(t, h.id, slots[i].h.id) THEN [slots EXCEPT ![i] = [used |-> TRUE, h |-> h]]
    ELSE PlaceIn(slots, t, h, i + 1)
RECURSIVE PickIterate(_, _, _)
PickIterate(hs, t, slots) == IF hs = <<>> THEN slots ELSE PickIterate(Tail(hs), t, PlaceIn(slots, t, Head(hs), 1))
SlotHandles(slots) == LET u == SelectSeq(slots, LAMBDA s : s.used) IN [i \in 1..Len(u) |-> u[i].h]

\* the id whose distance is the least among beat and the listed ids (fold with strict <)
RECURSIVE MinBeat(_, _, _)
MinBeat(hs, t, beat) == IF hs = <<>> THEN beat ELSE MinBeat(Tail(hs), t, IF Closer(t, Head(hs).id, beat) THEN Head(hs).id ELSE beat)

\* ---- TableLookup::new: `walk` = the good nodes of the table walk towards t, in walk order
New(walk, t) ==
    LET c0 == InsertAll(<<>>, t, SubSeq(walk, 1, Min2(Len(walk), MAXC)), {})
        k == Min2(ALPHA, Len(c0))
        c1 == [i \in 1..Len(c0) |-> IF i <= k THEN [c0[i] EXCEPT !.pinged = TRUE] ELSE c0[i]] IN
    [st |-> [t |-> t, cands |-> c1, active |-> <<>>, timedout |-> {}, requested |-> {}, toks |-> {}, eg |-> FALSE, amb |-> FALSE],
     \* every initial pick has to beat ITS OWN distance
     picks |-> [i \in 1..k |-> [h |-> c1[i].h, beat |-> c1[i].h.id]]]

\* ---- start_request_round: picks[i] was attempted with transaction id tids[i]; oks[i] = the datagram could be sent
AfterRound(st, picks, tids, oks) ==
    LET n == Len(picks)
        act == [x \in DOMAIN st.active \cup {tids[i] : i \in 1..n} |->
                   IF \E i \in 1..n : tids[i] = x THEN picks[CHOOSE i \in 1..n : tids[i] = x].beat ELSE st.active[x]]
        sent == {i \in 1..n : oks[i]} IN
    [st EXCEPT !.active = IF sent = {} THEN <<>> ELSE act,          \* messages_sent == 0 => active_lookups.clear()
               !.requested = @ \cup {picks[i].h : i \in sent}]

\* ---- start_endgame_round: every candidate not yet queried, in order of distance
NeedEndgame(st) == ~st.eg /\ DOMAIN st.active = {}
EgIdx(st) == LET RECURSIVE F(_) F(i) == IF i > Len(st.cands) THEN <<>> ELSE (IF st.cands[i].pinged THEN <<>> ELSE <<i>>) \o F(i + 1) IN F(1)
EgPicks(st) == LET ix == EgIdx(st) IN [j \in 1..Len(ix) |-> [h |-> st.cands[ix[j]].h, beat |-> st.cands[ix[j]].h.id]]
AfterEndgame(st, tids, oks) ==
    LET ix == EgIdx(st)  n == Len(ix)
        okIdx == {ix[j] : j \in {k \in 1..n : oks[k]}} IN
    [st EXCEPT !.eg = TRUE,
               \* the transaction is registered whether or not the datagram could be sent
               !.active = [x \in DOMAIN @ \cup {tids[j] : j \in 1..n} |->
                              IF \E j \in 1..n : tids[j] = x THEN st.cands[ix[CHOOSE j \in 1..n : tids[j] = x]].h.id ELSE @[x]],
               !.cands = [i \in 1..Len(@) |-> IF i \in okIdx THEN [@[i] EXCEPT !.pinged = TRUE] ELSE @[i]]]

\* ---- recv_response: `from` answered transaction tid naming `names` (the list of the socket's family), with/without a token
OnResponse(st, tid, from, names, hasTok) ==
    IF tid \in DOMAIN st.active THEN
        LET beat == st.active[tid]
            fresh == SelectSeq(names, LAMBDA h : h \notin st.requested)
            nbeat == MinBeat(fresh, st.t, beat)
            improved == names # <<>> /\ nbeat # beat
            slots == IF improved THEN PickIterate(fresh, st.t, [i \in 1..BETA |-> NoSlot]) ELSE <<>>
            picked == SlotHandles(slots)
            pset == {picked[i] : i \in 1..Len(picked)} IN
        [st |-> [st EXCEPT !.active = [x \in DOMAIN @ \ {tid} |-> @[x]],
                           !.toks = IF hasTok THEN @ \cup {from} ELSE @,
                           !.cands = InsertAll(@, st.t, names, pset),
                           !.amb = @ \/ AnyAmbiguous(st.cands, st.t, names, pset)],
         \* in the end-game answers only feed the candidate list
         picks |-> IF st.eg THEN <<>> ELSE [i \in 1..Len(picked) |-> [h |-> picked[i], beat |-> nbeat]],
         consumed |-> TRUE]
    ELSE IF tid \in st.timedout THEN
        \* answered after we stopped waiting, search still running: token and peers count, nothing else
        [st |-> [st EXCEPT !.timedout = @ \ {tid}, !.toks = IF hasTok THEN @ \cup {from} ELSE @], picks |-> <<>>, consumed |-> TRUE]
    ELSE [st |-> st, picks |-> <<>>, consumed |-> FALSE]

\* ---- recv_timeout
OnTimeout(st, tid) ==
    IF tid \in DOMAIN st.active
    THEN [st EXCEPT !.active = [x \in DOMAIN @ \ {tid} |-> @[x]], !.timedout = @ \cup {tid}]
    ELSE st

\* ---- recv_finished: announce to the first ANN candidates that sent a token
Announces(st) ==
    LET w == SelectSeq(st.cands, LAMBDA c : c.h \in st.toks) IN
    [i \in 1..Min2(ANN, Len(w)) |-> w[i].h]

(***************************************************************************)
(* Drive: a whole step when the outcome of the attempts is known by        *)
(* position (trace validation): A is the sequence of the attempts observed *)
(* in the step, records with fields t (transaction id) and ok.             *)
(* Returns the state after the step and the handles the mechanism queries, *)
(* in order.  Positions beyond Len(A) count as sent with a made-up id.     *)
(***************************************************************************)
LOCAL TidAt(A, i) == IF i <= Len(A) THEN A[i].t ELSE "?" \o ToString(i)
LOCAL OkAt(A, i) == IF i <= Len(A) THEN A[i].ok ELSE TRUE
Drive(st, picks, A) ==
    LET n == Len(picks)
        st1 == IF n = 0 THEN st ELSE AfterRound(st, picks, [i \in 1..n |-> TidAt(A, i)], [i \in 1..n |-> OkAt(A, i)])
        eg == NeedEndgame(st1)
        ep == IF eg THEN EgPicks(st1) ELSE <<>>
        m == Len(ep)
        st2 == IF eg THEN AfterEndgame(st1, [j \in 1..m |-> TidAt(A, n + j)], [j \in 1..m |-> OkAt(A, n + j)]) ELSE st1 IN
    [st |-> st2, asked |-> [i \in 1..(n + m) |-> IF i <= n THEN picks[i].h ELSE ep[i - n].h], endgame |-> eg]
=============================================================================
