------------------------------ MODULE MC_Table ------------------------------
(***************************************************************************)
(* Design-level check of C08, C09, C10: the bucket / table / closest-walk  *)
(* mechanism of RoutingTable.tla against the statements of TableProps.tla, *)
(* exhaustively for a small universe (BITS-bit ids, K slots per bucket),   *)
(* every interleaving of offers (as responder / as hearsay), queries sent, *)
(* queries received and passage of time around the 15-minute boundary.     *)
(***************************************************************************)
EXTENDS Integers, Sequences, FiniteSets, TLC, Json

CONSTANTS K, BITS, SELF, IDS, RIDS, ADDRS, ROUTERS, DELTAS, MAXSTEPS, LowestFirst, GEN

Pow2(n) == IF n = 0 THEN 1 ELSE IF n = 1 THEN 2 ELSE IF n = 2 THEN 4 ELSE IF n = 3 THEN 8 ELSE IF n = 4 THEN 16 ELSE 32
\* common prefix length of two BITS-bit numbers
RECURSIVE LcpFrom(_, _, _)
LcpFrom(a, b, i) ==
    IF i = BITS THEN BITS
    ELSE IF (a \div Pow2(BITS - 1 - i)) % 2 = (b \div Pow2(BITS - 1 - i)) % 2 THEN LcpFrom(a, b, i + 1) ELSE i
MCLCP(a, b) == LcpFrom(a, b, 0)
MAXB == BITS
ZeroId == 0
PlaceholderAddr == "127.0.0.1:0"

RT == INSTANCE RoutingTable WITH LCP <- MCLCP
MCStatus(c, n) == RT!Status(c, n)
INSTANCE TableProps WITH LCP <- MCLCP, RStatus <- MCStatus

VARIABLES now, t, hist, steps, chk, ops
vars == <<now, t, hist, steps, chk, ops>>
Log(op) == ops' = IF GEN THEN Append(ops, op) ELSE ops

Init == /\ now = 0 /\ t = [TableInit(SELF) EXCEPT !.routers = ROUTERS] /\ hist = <<>> /\ steps = 0
        /\ chk = [ok |-> TRUE] /\ ops = <<>>

AllTargetsOK(tt, n) ==
    \A tg \in 0..(Pow2(BITS) - 1) :
        LET cl == Closest(tt, tg, n)
            hs == [i \in 1..Len(cl) |-> Handle(cl[i])] IN
        /\ EnumOK(tt, n, hs)
        /\ ReplyOK(tt, tg, n, TakeN(hs, 8), LAMBDA a : TRUE)

Post(tt, hh, n, extra) == [ok |-> extra /\ ShapeOK(tt, n) /\ ClassifyOK(hh, tt, n) /\ AllTargetsOK(tt, n)]

Advance(d) ==
    /\ now' = now + d /\ UNCHANGED <<t, hist>>
    /\ chk' = Post(t, hist, now', NoSpuriousDropT(hist, t, now, t, now')) /\ Log([op |-> "adv", d |-> d])

OfferGood(id, a) ==
    LET c == AsGood(id, a, now)  t2 == TAdd(t, c, now)  h == Handle(c)
        h2 == HAnswer(hist, h, t2, now) IN
    /\ t' = t2 /\ hist' = h2 /\ UNCHANGED now
    /\ chk' = Post(t2, h2, now, OfferOK(t, h, GOOD, t2, now) /\ AnswerGood(t2, h, now))
    /\ Log([op |-> "good", id |-> id, addr |-> a])

OfferQuest(id, a) ==
    LET c == AsQuest(id, a, now)  t2 == TAdd(t, c, now)  h == Handle(c)
        h2 == HHearsay(hist, h, t, t2, now) IN
    /\ t' = t2 /\ hist' = h2 /\ UNCHANGED now
    /\ chk' = Post(t2, h2, now, OfferOK(t, h, QUEST, t2, now))
    /\ Log([op |-> "quest", id |-> id, addr |-> a])

MarkLocal(id, a) ==
    LET h == [id |-> id, addr |-> a]  t2 == TMarkLocal(t, h, now)  h2 == HQuerySent(hist, h, t, now) IN
    /\ t' = t2 /\ hist' = h2 /\ UNCHANGED now
    /\ chk' = Post(t2, h2, now, NoSpuriousDrop(h2, t, t2, now)) /\ Log([op |-> "local", id |-> id, addr |-> a])

MarkRemote(id, a) ==
    LET h == [id |-> id, addr |-> a]  t2 == TMarkRemote(t, h, now)  h2 == HQueryFrom(hist, h, t, now) IN
    /\ t' = t2 /\ hist' = h2 /\ UNCHANGED now
    /\ chk' = Post(t2, h2, now, NoSpuriousDrop(hist, t, t2, now)) /\ Log([op |-> "remote", id |-> id, addr |-> a])

Next ==
    /\ steps < MAXSTEPS /\ steps' = steps + 1
    /\ \/ \E d \in DELTAS : Advance(d)
       \/ \E id \in IDS, a \in ADDRS : OfferGood(id, a) \/ OfferQuest(id, a)
       \/ \E id \in RIDS, a \in ROUTERS : OfferGood(id, a) \/ OfferQuest(id, a)
       \* queries are sent to / received from contacts that occupy a slot (live or not), plus one stranger
       \/ \E p \in AllSlots(t) : LET c == SlotC(t, p) IN
             c.rsp # NONE /\ (MarkLocal(c.id, c.addr) \/ MarkRemote(c.id, c.addr))
       \/ \E id \in RIDS, a \in ADDRS : MarkRemote(id, a)

Spec == Init /\ [][Next]_vars
ChecksOK == chk.ok
Emit == (GEN /\ steps = MAXSTEPS) => PrintT(<<"REPLAY", ToJson(ops)>>)
=============================================================================
