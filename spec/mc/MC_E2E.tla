------------------------------- MODULE MC_E2E -------------------------------
(***************************************************************************)
(* Design-level check of C01 for a small fully meshed network: N serving   *)
(* nodes, each with its own token store and peer store (the mechanism      *)
(* operators of TokenStore.tla and PeerStore.tla); an announcing search =  *)
(* get_peers to every other node (token handed out), a short pause, then   *)
(* announce_peer with that token (stored iff the token is still valid);    *)
(* a search = get_peers to every other node.  Time advances by a boundary  *)
(* alphabet (seconds .. 24 h +- 5 s .. 25 h) between operations.           *)
(* Statement: a search by b finds the contact of every other announcer     *)
(* while less than 24 h have passed since its last announce, and does not  *)
(* find it once 24 h have passed.                                          *)
(***************************************************************************)
EXTENDS Integers, Sequences, FiniteSets, TLC

CONSTANTS NODES, DELTAS, MAXSTEPS, PAUSES
ROT == 600000  CAP == 500  TTL == 86400000
TS == INSTANCE TokenStore
PS == INSTANCE PeerStore

VARIABLES now, ts, ps, gen, lastAnn, phase, steps, chk
vars == <<now, ts, ps, gen, lastAnn, phase, steps, chk>>
Tok(ip, sec) == <<ip, sec>>
IH == "h"

Init == /\ now = 0 /\ ts = [n \in NODES |-> TS!TS_Init(0, 1, 0)] /\ ps = [n \in NODES |-> PS!PS_Init]
        /\ gen = 2 /\ lastAnn = [n \in NODES |-> -1] /\ phase = [a |-> "none"] /\ steps = 0 /\ chk = [ok |-> TRUE]

\* phase 1 of an announcing search by a: every other node hands out a token
GetTokens(a) ==
    /\ phase.a = "none"
    /\ LET ts2 == [n \in NODES |-> IF n = a THEN ts[n] ELSE TS!TS_Checkout(ts[n], now, gen, gen + 1)] IN
       /\ ts' = ts2
       /\ phase' = [a |-> a, toks |-> [n \in NODES \ {a} |-> Tok(a, TS!TS_TokenSecret(ts2[n]))]]
    /\ gen' = gen + 2 /\ UNCHANGED <<now, ps, lastAnn, chk>>
\* the search runs for a few seconds
Pause(d) == phase.a # "none" /\ now' = now + d /\ UNCHANGED <<ts, ps, gen, lastAnn, phase, chk>>
\* phase 2: announce_peer to every other node with the token it handed out
Announce ==
    /\ phase.a # "none"
    /\ LET a == phase.a
           ts2 == [n \in NODES |-> IF n = a THEN ts[n] ELSE TS!TS_Refresh(ts[n], now, gen, gen + 1)]
           valid(n) == \E sec \in TS!TS_ValidSecrets(ts2[n]) : phase.toks[n] = Tok(a, sec)
           add(n) == PS!PS_Add(ps[n], IH, a, now) IN
       /\ ts' = ts2
       /\ ps' = [n \in NODES |-> IF n # a /\ valid(n) THEN add(n).st ELSE ps[n]]
       /\ lastAnn' = [lastAnn EXCEPT ![a] = now]
       /\ chk' = [ok |-> \A n \in NODES \ {a} : valid(n) /\ add(n).ok, op |-> "announce"]
    /\ phase' = [a |-> "none"] /\ gen' = gen + 2 /\ UNCHANGED now
Search(b) ==
    /\ phase.a = "none"
    /\ LET found == UNION {LET r == PS!PS_Find(ps[n], IH, now) IN {r.out[i] : i \in 1..Len(r.out)} : n \in NODES \ {b}} IN
       chk' = [ok |-> \A a \in NODES \ {b} :
                        /\ (lastAnn[a] >= 0 /\ now < lastAnn[a] + TTL) => a \in found
                        /\ (lastAnn[a] = -1 \/ now >= lastAnn[a] + TTL) => a \notin found,
               op |-> "search"]
    /\ ps' = [n \in NODES |-> IF n = b THEN ps[n] ELSE PS!PS_Find(ps[n], IH, now).st]
    /\ UNCHANGED <<now, ts, gen, lastAnn, phase>>
Advance(d) == phase.a = "none" /\ now' = now + d /\ UNCHANGED <<ts, ps, gen, lastAnn, phase, chk>>

Next ==
    /\ steps < MAXSTEPS /\ steps' = steps + 1
    /\ \/ \E a \in NODES : GetTokens(a) \/ Search(a)
       \/ \E d \in PAUSES : Pause(d)
       \/ Announce
       \/ \E d \in DELTAS : Advance(d)
Spec == Init /\ [][Next]_vars
E2E == chk.ok
=============================================================================
