------------------------------ MODULE MC_Lookup ------------------------------
(***************************************************************************)
(* Design-level check of one search (C02 C03 C04) over small universes:    *)
(* target 0 (XOR symmetry), 4-bit ids, ALPHA = 2, BETA = 2, ANN = 2;       *)
(* every environment of a family:                                          *)
(*   "coop"   every node answers after 0 or 999 ms with the truly closest   *)
(*            nodes, a token and its peers; every non-empty starting set    *)
(*   "timing" every node answers after 0/1499/1500/1501/2999 ms or never,  *)
(*            names truthfully or names one closer node (chains), some      *)
(*            datagrams cannot be sent                                      *)
(* All arrival orders follow from the delays; ties are explored both ways. *)
(***************************************************************************)
EXTENDS Integers, Sequences, FiniteSets, TLC, Bitwise

CONSTANTS FAMILY, UNI, AnnounceC, EndgameQueriesAll
ALPHA == 2  BETA == 2  ANN == 2  MAXC == 3  TIMEOUT == 1500
Target == 0
Announce == AnnounceC
Universe == UNI
MCDist(a, b) == a ^^ b

RECURSIVE SortedBy(_)
SortedBy(S) == IF S = {} THEN <<>> ELSE LET x == CHOOSE y \in S : \A z \in S : y <= z IN <<x>> \o SortedBy(S \ {x})
TakeN(s, n) == IF Len(s) <= n THEN s ELSE SubSeq(s, 1, n)
Truthful == TakeN(SortedBy(UNI), 3)
Closer(n) == LET S == {m \in UNI : m < n} IN IF S = {} THEN <<>> ELSE <<CHOOSE y \in S : \A z \in S : z <= y>>   \* the next closer node
Orders(S) == {s \in [1..Cardinality(S) -> S] : \A i, j \in 1..Cardinality(S) : i # j => s[i] # s[j]}
Starts == UNION {Orders(S) : S \in (SUBSET UNI) \ {{}}} \cup {<<>>}

CoopEnvs ==
    {[initial |-> i, delay |-> d, names |-> [n \in UNI |-> Truthful], peers |-> [n \in UNI |-> IF n % 2 = 1 THEN <<n, n + 100>> ELSE <<>>],
      sendok |-> [n \in UNI |-> TRUE]] : i \in {s \in Starts : Len(s) <= 2}, d \in [UNI -> {0, 999}]}
TimingEnvs ==
    {[initial |-> i, delay |-> d, names |-> nm, peers |-> [n \in UNI |-> <<n>>], sendok |-> so] :
        i \in {s \in Starts : Len(s) = 2 \/ Len(s) = 0}, d \in [UNI -> {-1, 0, 1499, 1500, 1501, 2999}],
        nm \in {[n \in UNI |-> Truthful], [n \in UNI |-> Closer(n)]},
        so \in {[n \in UNI |-> TRUE], [n \in UNI |-> n % 3 # 0]}}
MCEnvs == IF FAMILY = "coop" THEN CoopEnvs ELSE TimingEnvs

VARIABLES env, now, lk, meta, tokv, egAt, yielded, announced, done, doneAt, inflight, nextTid, log
INSTANCE Lookup WITH Dist <- MCDist, ENVS <- MCEnvs

Safety == YieldJustified /\ AnnounceOK /\ NoEarlyClose /\ ClosedBy /\ SilentCloseAt3s /\ ImmediateWhenNothingToAsk
S1 == YieldJustified
S2 == AnnounceOK
S3 == NoEarlyClose
S4 == ClosedBy
S5 == SilentCloseAt3s
S6 == ImmediateWhenNothingToAsk
S7 == \A x \in inflight : x.due >= now
CoopProps == (FAMILY = "coop") => CoopAnnounce
\* every peer of every node that was queried and answered is delivered (coop: everybody answers in time)
CoopYields == (FAMILY = "coop" /\ done) =>
    \A q \in Queries : q.ok => \A k \in 1..Len(env.peers[q.node]) : \E i \in 1..Len(yielded) : yielded[i].tid = q.tid /\ yielded[i].addr = env.peers[q.node][k]
=============================================================================
