SPECIFICATION Spec
CONSTANTS
  RO = FALSE
  MAXSTEPS = 4
  DELTAS = {1, 600000, 1200000}
  CAPC = 2
  GATED = FALSE
INVARIANT ChecksOK
CHECK_DEADLOCK FALSE
