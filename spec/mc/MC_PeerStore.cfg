SPECIFICATION Spec
CONSTANTS
  CAP = 3
  TTL = 86400000
  HASHES = {"h1", "h2"}
  ADDRS = {"a4:1", "a4:2", "b4:1", "c6:1"}
  DELTAS = {1, 43200000, 86399999, 86400000, 86400001}
  FILLS = {}
  MAXSTEPS = 6
  GEN = FALSE
  RENEW_MOVES = TRUE
INVARIANT ChecksOK
INVARIANT QueueSorted
INVARIANT ViewsAgree
INVARIANT Bounded
CHECK_DEADLOCK FALSE
