SPECIFICATION Spec
CONSTANTS
  ROT = 600000
  IPS = {"a4", "b4", "c6"}
  DELTAS = {1, 999, 1000, 599000, 599999, 600000, 1199999, 1200000, 1800000}
  MAXSTEPS = 3
  GEN = TRUE
  KEEP_BOTH = TRUE
INVARIANT VerdictsOK
INVARIANT Emit
CHECK_DEADLOCK FALSE
