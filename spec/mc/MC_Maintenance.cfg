SPECIFICATION Spec
CONSTANTS
  CONTACTS = {1, 2, 3}
  RTT = 1998
  REBOOTSTRAP = TRUE
  HORIZON = 2400000
  SILENT_AT = {0, 10000, 898000, 900000}
  AskAgainWhileUnanswered = FALSE
INVARIANT ResponsiveNeverLost
INVARIANT QuestionableAtMost30s
INVARIANT SilentGoneBy
CHECK_DEADLOCK FALSE
