SPECIFICATION Spec
CONSTANTS
  NODES = {"a", "b", "c"}
  DELTAS = {2000, 660000, 1260000, 3600000, 86395000, 86405000, 90000000}
  PAUSES = {1000, 3000}
  MAXSTEPS = 7
INVARIANT E2E
CHECK_DEADLOCK FALSE
