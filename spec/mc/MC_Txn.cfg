SPECIFICATION Spec
CONSTANTS
  BLOCK = 2
  MMAX = 8
  AMAX = 4
  DRAWS = 12
INVARIANT Inv
CHECK_DEADLOCK FALSE
