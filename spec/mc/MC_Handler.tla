------------------------------ MODULE MC_Handler ------------------------------
EXTENDS Handler, TLC
CONSTANTS MAXROUNDS, WAITERS, SEARCHES, TICKS, MAXTIME
Next ==
    /\ Len(rounds) < MAXROUNDS /\ now <= MAXTIME
    /\ \/ TimerFires \/ BootSucceeds \/ BootLost
       \/ \E w \in WAITERS : CheckBootstrap(w)
       \/ \E s \in SEARCHES : StartLookup(s)
       \/ \E d \in TICKS : Tick(d)
Spec == Init /\ [][Next]_vars
=============================================================================
