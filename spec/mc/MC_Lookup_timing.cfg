SPECIFICATION Spec
CONSTANTS
  FAMILY = "timing"
  UNI = {1, 3, 6}
  AnnounceC = TRUE
  EndgameQueriesAll = TRUE
INVARIANT Safety
PROPERTY Terminates
CHECK_DEADLOCK FALSE
