SPECIFICATION Spec
INVARIANT Injective
CHECK_DEADLOCK FALSE
