---------------------------- MODULE MC_PeerStore ----------------------------
(***************************************************************************)
(* Design-level check of C07 (exhaustive for small CAP) and generator of   *)
(* behaviours for the real store (CAP = 500, bulk Fill steps, -simulate).  *)
(***************************************************************************)
EXTENDS Integers, Sequences, FiniteSets, TLC, Json

CONSTANTS CAP, TTL, HASHES, ADDRS, DELTAS, FILLS, MAXSTEPS, GEN, RENEW_MOVES
\* RENEW_MOVES = TRUE is the code's mechanism (a renewal moves the entry to the back of the
\* expiry queue); FALSE renews in place -- a broken variant that MC must catch.

INSTANCE PeerStore

VARIABLES now, s, acked, fresh, steps, chk, ops
vars == <<now, s, acked, fresh, steps, chk, ops>>

Log(op) == ops' = IF GEN THEN Append(ops, op) ELSE ops

Init == now = 0 /\ s = PS_Init /\ acked = A_Init /\ fresh = 0 /\ steps = 0 /\ chk = [ok |-> TRUE] /\ ops = <<>>

AddMech(st, ih, addr, t) ==
    IF RENEW_MOVES THEN PS_Add(st, ih, addr, t)
    ELSE LET p == PS_Purge(st, t) IN
         IF PS_Has(p, ih, addr)
         THEN [st |-> [q |-> [i \in 1..Len(p.q) |-> IF p.q[i].ih = ih /\ p.q[i].addr = addr
                                                     THEN [p.q[i] EXCEPT !.at = t] ELSE p.q[i]],
                       idx |-> p.idx], ok |-> TRUE]
         ELSE PS_Add(st, ih, addr, t)

Advance(d) ==
    /\ now' = now + d /\ acked' = A_Prune(acked, now')
    /\ UNCHANGED <<s, fresh, chk>> /\ Log([op |-> "adv", d |-> d])

Add(ih, addr) ==
    LET r == AddMech(s, ih, addr, now) IN
    /\ s' = r.st
    /\ acked' = IF r.ok THEN A_Ack(acked, ih, addr, now) ELSE acked
    /\ chk' = [ok |-> AddOK(acked, ih, addr, now, r.ok) /\ BoundedOK(acked', now), op |-> "add", r |-> r.ok]
    /\ UNCHANGED <<now, fresh>> /\ Log([op |-> "add", ih |-> ih, addr |-> addr])

Find(ih) ==
    LET r == PS_Find(s, ih, now) IN
    /\ s' = r.st
    /\ chk' = [ok |-> FindOK(acked, ih, now, r.out), op |-> "find", n |-> Len(r.out)]
    /\ UNCHANGED <<now, acked, fresh>> /\ Log([op |-> "find", ih |-> ih])

RECURSIVE FillMech(_, _, _, _, _, _)
FillMech(st, ak, ih, k, n, allok) ==     \* n adds of fresh addresses f<k>, f<k+1>, ...
    IF n = 0 THEN [st |-> st, ak |-> ak, ok |-> allok]
    ELSE LET a == "f" \o ToString(k)
             r == AddMech(st, ih, a, now) IN
         FillMech(r.st, IF r.ok THEN A_Ack(ak, ih, a, now) ELSE ak, ih, k + 1, n - 1,
                  allok /\ AddOK(ak, ih, a, now, r.ok))

Fill(ih, n) ==
    LET r == FillMech(s, acked, ih, fresh, n, TRUE) IN
    /\ s' = r.st /\ acked' = r.ak /\ fresh' = fresh + n
    /\ chk' = [ok |-> r.ok /\ BoundedOK(r.ak, now), op |-> "fill"]
    /\ UNCHANGED now /\ Log([op |-> "fill", ih |-> ih, n |-> n, first |-> fresh])

\* re-announce every k-th pair currently live for ih (renewals while full)
RECURSIVE RenewMech(_, _, _, _, _)
RenewMech(st, ak, ih, todo, allok) ==
    IF todo = <<>> THEN [st |-> st, ak |-> ak, ok |-> allok]
    ELSE LET a == Head(todo)
             r == AddMech(st, ih, a, now) IN
         RenewMech(r.st, IF r.ok THEN A_Ack(ak, ih, a, now) ELSE ak, ih, Tail(todo),
                   allok /\ AddOK(ak, ih, a, now, r.ok))

Renew(ih, k) ==
    LET cur == PS_Find(s, ih, now).out
        todo == SelectSeq(cur, LAMBDA a : TRUE)
        pick == [i \in 1..(Len(todo) \div k) |-> todo[i * k]]
        r == RenewMech(s, acked, ih, pick, TRUE) IN
    /\ Len(pick) > 0
    /\ s' = r.st /\ acked' = r.ak
    /\ chk' = [ok |-> r.ok /\ BoundedOK(r.ak, now), op |-> "renew"]
    /\ UNCHANGED <<now, fresh>> /\ Log([op |-> "renew", ih |-> ih, k |-> k])

Next ==
    /\ steps < MAXSTEPS /\ steps' = steps + 1
    /\ \/ \E d \in DELTAS : Advance(d)
       \/ \E ih \in HASHES, a \in ADDRS : Add(ih, a)
       \/ \E ih \in HASHES : Find(ih)
       \/ \E ih \in HASHES, n \in FILLS : Fill(ih, n)
       \/ \E ih \in HASHES, k \in (IF FILLS = {} THEN {} ELSE {1, 3}) : Renew(ih, k)

Spec == Init /\ [][Next]_vars

ChecksOK == chk.ok
\* mechanism invariants (the two views of the store agree, queue sorted by time, bounded)
QueueSorted == \A i \in 1..(Len(s.q) - 1) : s.q[i].at <= s.q[i + 1].at
ViewsAgree ==
    /\ \A i \in 1..Len(s.q) : \E j \in 1..Len(IdxGet(s.idx, s.q[i].ih)) : IdxGet(s.idx, s.q[i].ih)[j] = s.q[i].addr
    /\ \A ih \in DOMAIN s.idx : Len(s.idx[ih]) = Cardinality({i \in 1..Len(s.q) : s.q[i].ih = ih})
Bounded == Len(s.q) <= CAP
Emit == (GEN /\ steps = MAXSTEPS) => PrintT(<<"REPLAY", ToJson(ops)>>)
=============================================================================
