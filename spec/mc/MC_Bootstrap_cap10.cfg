SPECIFICATION Spec
CONSTANTS
  CAP = 10
  NCONTACTS = 30
  ROUTERS = FALSE
  GOODFOUND = 3
  BUCKET_MS = 80000
  MAXATTEMPTS = 16
INVARIANT ResponsiveBound
INVARIANT NoSuccessBeforeAnswer
CHECK_DEADLOCK FALSE
