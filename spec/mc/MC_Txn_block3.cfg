SPECIFICATION Spec
CONSTANTS
  BLOCK = 3
  MMAX = 8
  AMAX = 4
  DRAWS = 12
INVARIANT Inv
CHECK_DEADLOCK FALSE
