---- MODULE MC_Bootstrap ----
EXTENDS Bootstrap
====
