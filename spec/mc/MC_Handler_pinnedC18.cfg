SPECIFICATION Spec
CONSTANTS
  CancelPending = FALSE
  QueueEarly = TRUE
  REFRESH_MS = 6000
  MAXROUNDS = 5
  WAITERS = {1}
  SEARCHES = {1, 2}
  TICKS = {5000}
  MAXTIME = 30000
INVARIANT AtMostOneRefreshTimer
INVARIANT RoundsBounded
INVARIANT NoLookupBeforeInitialBootstrap
INVARIANT QueuedAreStarted
INVARIANT WaitersToldOnSuccess
CHECK_DEADLOCK FALSE
