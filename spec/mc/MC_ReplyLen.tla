---------------------------- MODULE MC_ReplyLen ----------------------------
(***************************************************************************)
(* C17, design level: which datagrams of the protocol can exceed the       *)
(* 1500-byte receive buffer?  Evaluates the size model of Wire.tla for     *)
(* every reply shape (0..500 values of either family, 0..8 nodes per       *)
(* family, transaction ids up to 32 bytes) and every query shape, and      *)
(* checks that the only oversize datagrams are get_peers replies that are  *)
(* too long because of their `values` (the recorded finding); prints the   *)
(* largest value count that still fits.                                    *)
(***************************************************************************)
EXTENDS Wire, TLC, FiniteSets
VARIABLE done
MaxQueryLen == Len(Encode([kind |-> "announce_peer", t |-> [i \in 1..32 |-> 0], id |-> EX_id, info_hash |-> EX_tg,
                           port |-> -1, token |-> [i \in 1..64 |-> 0], want |-> "none"]))
Over == {x \in [tl : {0, 8, 32}, n4 : 0..8, n6 : 0..8, k : 0..500, v : {6, 18}] : RespLen(x.tl, x.n4, x.n6, 20, x.k, x.v) > 1500}
OnlyBecauseOfValues == \A x \in Over : x.k > 0 /\ RespLen(x.tl, x.n4, x.n6, 20, 0, x.v) <= 1500
MaxFit(tl, n4, n6, v) == CHOOSE k \in 0..500 : RespLen(tl, n4, n6, 20, k, v) <= 1500 /\ RespLen(tl, n4, n6, 20, k + 1, v) > 1500
Init == done = FALSE
Next == ~done /\ done' = TRUE
    /\ PrintT(<<"MAXFIT", "v4 values, 8 v4 nodes, 8-byte tid", MaxFit(8, 8, 0, 6), "no nodes", MaxFit(8, 0, 0, 6),
                "v6 values, 8 v6 nodes", MaxFit(8, 0, 8, 18), "both families of nodes, 32-byte tid, v4 values", MaxFit(32, 8, 8, 6)>>)
Spec == Init /\ [][Next]_done
Inv == OnlyBecauseOfValues /\ MaxQueryLen <= 1500 /\ RespLen(32, 8, 8, 20, 0, 6) <= 1500 /\ Cardinality(Over) > 0
=============================================================================
