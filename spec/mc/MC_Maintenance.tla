---- MODULE MC_Maintenance ----
EXTENDS Maintenance
====
