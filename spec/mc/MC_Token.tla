------------------------------ MODULE MC_Token ------------------------------
(***************************************************************************)
(* Design-level check of C06: the two-secret lazy-rotation mechanism of    *)
(* TokenStore satisfies the history statement (>= 10 min, < 30 min, bound  *)
(* to the IP, never-issued tokens refused) for every interleaving of       *)
(* get_peers / announce_peer from several IPs and every passage of time    *)
(* drawn from a boundary alphabet around the rotation interval.            *)
(***************************************************************************)
EXTENDS Integers, Sequences, FiniteSets, TLC, Json

CONSTANTS ROT, IPS, DELTAS, MAXSTEPS, KEEP_BOTH, GEN
\* GEN = TRUE: carry the sequence of operations and print each maximal behaviour (MBT generation)
\* KEEP_BOTH = TRUE is the code's mechanism; FALSE is a deliberately broken variant
\* (validates against the current secret only) used to show the model is not vacuous.

INSTANCE TokenStore

VARIABLES now, s, h, gen, steps, chk, ops
vars == <<now, s, h, gen, steps, chk, ops>>

Log(op) == ops' = IF GEN THEN Append(ops, op) ELSE ops

Tok(ip, sec) == <<ip, sec>>

Init ==
    /\ now = 0
    /\ s = TS_Init(0, 1, 0)
    /\ h = {}
    /\ gen = 2
    /\ steps = 0
    /\ chk = [ok |-> TRUE]
    /\ ops = <<>>

Advance(d) ==
    /\ now' = now + d
    /\ UNCHANGED <<s, gen, chk>>
    /\ h' = H_Prune(h, now')
    /\ Log([op |-> "adv", d |-> d])

GetPeers(ip) ==
    LET s2 == TS_Checkout(s, now, gen, gen + 1) IN
    /\ s' = s2
    /\ gen' = gen + TS_Draws(s, now)
    /\ h' = h \cup {[ip |-> ip, tok |-> Tok(ip, TS_TokenSecret(s2)), at |-> now, k |-> steps]}
    /\ UNCHANGED <<now, chk>>
    /\ Log([op |-> "get", ip |-> ip])

Valid(st, ip, tok) ==
    IF KEEP_BOTH THEN \E sec \in TS_ValidSecrets(st) : tok = Tok(ip, sec)
    ELSE tok = Tok(ip, st.cur)

Announce(ip, tok, ref) ==
    \* a token of the wrong length is refused before the store is consulted (handler.rs:
    \* `Token::new` fails), so no lazy rotation happens on that path
    LET wellformed == Len(tok) = 2
        s2 == IF wellformed THEN TS_Refresh(s, now, gen, gen + 1) ELSE s
        v  == wellformed /\ Valid(s2, ip, tok) IN
    /\ s' = s2
    /\ gen' = IF wellformed THEN gen + TS_Draws(s, now) ELSE gen
    /\ chk' = [ok |-> VerdictOK(h, ip, tok, now, v), ip |-> ip, tok |-> tok, v |-> v,
               must |-> MustAccept(h, ip, tok, now), may |-> MayAccept(h, ip, tok, now)]
    /\ UNCHANGED <<now, h>>
    /\ Log([op |-> "ann", ip |-> ip, ref |-> ref])

Next ==
    /\ steps < MAXSTEPS
    /\ steps' = steps + 1
    /\ \/ \E d \in DELTAS : Advance(d)
       \/ \E ip \in IPS : GetPeers(ip)
       \/ \E ip \in IPS : \E r \in h : Announce(ip, r.tok, r.k)
       \/ \E ip \in IPS : Announce(ip, <<ip, -1>>, -1)      \* right length, never issued
       \/ \E ip \in IPS : Announce(ip, <<"short">>, -2)    \* wrong length

Spec == Init /\ [][Next]_vars

VerdictsOK == chk.ok
Emit == (GEN /\ steps = MAXSTEPS) => PrintT(<<"REPLAY", ToJson(ops)>>)
\* vacuity guards: the three interesting situations do occur
SomeOldAccepted == ~(chk.ok /\ "v" \in DOMAIN chk /\ chk.v /\ ~chk.must)
SomeForeignRejected == ~("v" \in DOMAIN chk /\ ~chk.v /\ chk.tok[1] # chk.ip /\ Len(chk.tok) = 2)
=============================================================================
