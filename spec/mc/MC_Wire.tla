------------------------------- MODULE MC_Wire -------------------------------
(***************************************************************************)
(* C13, spec -> impl: enumerates the abstract message space over small but *)
(* adversarial field domains (transaction ids containing 0x00 0xff ':' 'e',*)
(* every want, explicit / zero / maximal / implied port, empty / 1-byte /  *)
(* 20-byte tokens, 0..3 values mixing families, 0..2 nodes per family,     *)
(* error codes and UTF-8 texts) and prints every message; the harness      *)
(* builds each with the real types, and the real encoder / decoder are     *)
(* checked against Wire!Encode by trace validation.                        *)
(***************************************************************************)
EXTENDS Wire, Json, FiniteSets
VARIABLE done
TIDS == {<<>>, <<97, 97>>, <<0, 255, 58, 101, 100, 105, 49, 58>>, [i \in 1..32 |-> IF i % 3 = 0 THEN 58 ELSE 255 - i]}
IDA == EX_id
IDB == [i \in 1..20 |-> IF i = 1 THEN 0 ELSE 255]
IDS == {IDA, IDB}
WANTS == {"none", "n4", "n6", "both"}
PORTS == {0, 1, 65535, -1}
TOKS == {<<>>, <<0>>, EX_tg}
P4(i) == [ip |-> <<10, 0, 0, i>>, port |-> 256 * i + 1]
P6(i) == [ip |-> [k \in 1..16 |-> IF k = 16 THEN i ELSE 32], port |-> 65535]
VALS == {<<>>, <<P4(1)>>, <<P4(1), P6(2)>>, <<P6(1), P4(2), P4(3)>>}
N4(i) == [id |-> IDA, ip |-> <<192, 168, 0, i>>, port |-> i]
N6(i) == [id |-> IDB, ip |-> [k \in 1..16 |-> k + i], port |-> 6881]
NODES4 == {<<>>, <<N4(1)>>, <<N4(1), N4(2)>>}
NODES6 == {<<>>, <<N6(1)>>, <<N6(1), N6(2)>>}
TEXTS == {<<>>, <<65>>, <<195, 169, 230, 188, 162, 32, 120>>}
Base == [id |-> <<>>, target |-> <<>>, info_hash |-> <<>>, want |-> "none", port |-> 0, token |-> <<>>, hastoken |-> FALSE,
         values |-> <<>>, nodes |-> <<>>, nodes6 |-> <<>>, code |-> 0, msg |-> <<>>]
Msgs ==
    {[kind |-> "ping", t |-> t, id |-> i] @@ Base : t \in TIDS, i \in IDS}
    \cup {[kind |-> "find_node", t |-> t, id |-> i, target |-> g, want |-> w] @@ Base : t \in TIDS, i \in IDS, g \in IDS, w \in WANTS}
    \cup {[kind |-> "get_peers", t |-> t, id |-> i, info_hash |-> g, want |-> w] @@ Base : t \in TIDS, i \in IDS, g \in IDS, w \in WANTS}
    \cup {[kind |-> "announce_peer", t |-> t, id |-> i, info_hash |-> g, port |-> p, token |-> k] @@ Base :
              t \in TIDS, i \in IDS, g \in IDS, p \in PORTS, k \in TOKS}
    \cup {[kind |-> "resp", t |-> t, id |-> i, hastoken |-> h, token |-> (IF h THEN k ELSE <<>>), values |-> v, nodes |-> a, nodes6 |-> b] @@ Base :
              t \in TIDS, i \in IDS, h \in BOOLEAN, k \in TOKS, v \in VALS, a \in NODES4, b \in NODES6}
    \cup {[kind |-> "err", t |-> t, code |-> c, msg |-> x] @@ Base : t \in TIDS, c \in {0, 201, 255}, x \in TEXTS}
Init == done = FALSE
Next == ~done /\ done' = TRUE /\ \A m \in Msgs : PrintT(<<"REPLAY", ToJson(m)>>)
Spec == Init /\ [][Next]_done
\* internal consistency of the oracle: distinct messages have distinct encodings
Injective == done => \A m1, m2 \in {m \in Msgs : m.kind # "resp"} : Encode(m1) = Encode(m2) => m1 = m2
=============================================================================
