SPECIFICATION Spec
CONSTANTS
  FAMILY = "coop"
  UNI = {1, 3, 6, 12}
  AnnounceC = TRUE
  EndgameQueriesAll = FALSE
INVARIANT Safety
INVARIANT CoopProps
INVARIANT CoopYields
CHECK_DEADLOCK FALSE
