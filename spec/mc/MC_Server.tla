------------------------------ MODULE MC_Server ------------------------------
(***************************************************************************)
(* Design-level check of the serving side (C05 C06 C07 C09 C12): every     *)
(* interleaving of ping / find_node / get_peers / announce_peer from       *)
(* several sources (want x port x token choices), non-query datagrams and  *)
(* time, against the history statements of the component modules and the   *)
(* reply-shape rules; serving and read-only nodes; small table and store.  *)
(***************************************************************************)
EXTENDS Integers, Sequences, FiniteSets, TLC

CONSTANTS RO, MAXSTEPS, DELTAS, CAPC, GATED
SRCS == {[fam |-> 4, ip |-> "a", port |-> 1], [fam |-> 4, ip |-> "b", port |-> 1], [fam |-> 6, ip |-> "c", port |-> 2]}
\* GATED = TRUE: storing is gated on the token check (the code); FALSE: a deliberately broken variant

BITS == 4
Pow2(n) == IF n = 0 THEN 1 ELSE IF n = 1 THEN 2 ELSE IF n = 2 THEN 4 ELSE IF n = 3 THEN 8 ELSE 16
RECURSIVE LcpFrom(_, _, _)
LcpFrom(a, b, i) == IF i = BITS THEN BITS ELSE IF (a \div Pow2(BITS - 1 - i)) % 2 = (b \div Pow2(BITS - 1 - i)) % 2 THEN LcpFrom(a, b, i + 1) ELSE i
MCLCP(a, b) == LcpFrom(a, b, 0)
\* addresses are records [fam, ip, port]
MCFam(a) == a.fam
MCIp(a) == a.ip
MCWithPort(a, p) == [a EXCEPT !.port = p]
MCTok(ip, sec) == <<ip, sec>>
K == 2  MAXB == BITS  ZeroId == 0  PlaceholderAddr == [fam |-> 4, ip |-> "0", port |-> 0]  LowestFirst == TRUE
ROT == 600000  CAP == CAPC  TTL == 86400000
SV == INSTANCE Server WITH LCP <- MCLCP, Tok <- MCTok, Fam <- MCFam, Ip <- MCIp, WithPort <- MCWithPort
RT == INSTANCE RoutingTable WITH LCP <- MCLCP
MCStatus(c, n) == RT!Status(c, n)
TP == INSTANCE TableProps WITH LCP <- MCLCP, RStatus <- MCStatus
TS == INSTANCE TokenStore
PS == INSTANCE PeerStore

VARIABLES now, nd, issued, acked, gen, steps, chk
vars == <<now, nd, issued, acked, gen, steps, chk>>

A(f, i, p) == [fam |-> f, ip |-> i, port |-> p]
SELF == 5
\* a small populated table: three v4 contacts and one v6 contact that answered at time 0
Table0 ==
    LET t0 == [RT!TableInit(SELF) EXCEPT !.routers = {}]
        t1 == RT!TAdd(t0, RT!AsGood(13, A(4, "n1", 1), 0), 0)
        t2 == RT!TAdd(t1, RT!AsGood(12, A(4, "n2", 1), 0), 0)
        t3 == RT!TAdd(t2, RT!AsGood(7, A(4, "n3", 1), 0), 0) IN
    RT!TAdd(t3, RT!AsQuest(4, A(6, "n4", 1), 0), 0)

Init == /\ now = 0 /\ issued = {} /\ acked = <<>> /\ gen = 2 /\ steps = 0 /\ chk = [ok |-> TRUE]
        /\ nd = [id |-> SELF, fam |-> 4, ro |-> RO, table |-> Table0, ts |-> TS!TS_Init(0, 1, 0), ps |-> PS!PS_Init]

IHS == {"h1"}
Draws == TS!TS_Draws(nd.ts, now)

\* reply-shape rules of C05 for query q from src with outcome r
ShapeOK(q, src, r) ==
    IF nd.ro THEN r.out = <<>>
    ELSE /\ Len(r.out) = 1
         /\ LET rep == r.out[1] IN
            /\ rep.dst = src /\ rep.t = q.t
            /\ (rep.y = "r" => rep.id = SELF)
            /\ (q.kind = "ping" => rep.y = "r" /\ rep.kind = "pong")
            /\ (q.kind = "find_node" =>
                   /\ rep.y = "r" /\ rep.kind = "nodes"
                   /\ (4 \notin SV!WantFams(nd, q.want) => rep.nodes.n4 = <<>>) /\ (6 \notin SV!WantFams(nd, q.want) => rep.nodes.n6 = <<>>)
                   /\ (4 \in SV!WantFams(nd, q.want) => TP!ReplyOK(nd.table, q.target, now, rep.nodes.n4, LAMBDA a : a.fam = 4))
                   /\ (6 \in SV!WantFams(nd, q.want) => TP!ReplyOK(nd.table, q.target, now, rep.nodes.n6, LAMBDA a : a.fam = 6)))
            /\ (q.kind = "get_peers" =>
                   /\ rep.y = "r" /\ rep.kind = "peers"
                   /\ \A i \in 1..Len(rep.values) : rep.values[i].fam = src.fam
                   /\ LET got == {rep.values[i] : i \in 1..Len(rep.values)} IN
                      /\ Len(rep.values) = Cardinality(got)
                      /\ \A p \in PS!LiveStrict(acked, now) : (p[1] = q.ih /\ p[2].fam = src.fam) => p[2] \in got
                      /\ \A a \in got : <<q.ih, a>> \in PS!LiveLoose(acked, now))
            /\ (q.kind = "announce_peer" =>
                   LET tokok == ~(rep.y = "e" /\ rep.code = 203)
                       stored == rep.y = "r"
                       c == IF q.implied THEN src ELSE [src EXCEPT !.port = q.port] IN
                   /\ (rep.y = "e" => rep.code \in {202, 203})
                   /\ TS!VerdictOK(issued, src.ip, q.token, now, tokok)
                   /\ (q.toklen # 20 => ~tokok)
                   /\ (tokok => PS!AddOK(acked, q.ih, c, now, stored)))

Query(q, src) ==
    LET r0 == SV!HandleQuery(nd, q, src, now, gen, gen + 1)
        \* broken variant: the peer is stored even when the token was refused
        r == IF GATED \/ q.kind # "announce_peer" \/ nd.ro \/ r0.out[1].y # "e" \/ r0.out[1].code # 203 THEN r0
             ELSE [r0 EXCEPT !.st.ps = PS!PS_Add(r0.st.ps, q.ih, IF q.implied THEN src ELSE [src EXCEPT !.port = q.port], now).st]
        rep == IF r.out = <<>> THEN [y |-> "none"] ELSE r.out[1] IN
    /\ nd' = r.st
    /\ gen' = gen + 2
    /\ issued' = IF q.kind = "get_peers" /\ rep.y = "r" THEN TS!H_Issue(TS!H_Prune(issued, now), src.ip, rep.token, now) ELSE issued
    /\ acked' = IF q.kind = "announce_peer" /\ rep.y = "r"
                THEN PS!A_Ack(acked, q.ih, IF q.implied THEN src ELSE [src EXCEPT !.port = q.port], now) ELSE acked
    /\ chk' = [ok |-> ShapeOK(q, src, r)
                      /\ TP!RLiveHandles(r.st.table, now) \subseteq TP!RLiveHandles(nd.table, now)      \* C12: a query never admits
                      /\ TP!ShapeOK(r.st.table, now),
               q |-> q.kind]
    /\ UNCHANGED now

Next ==
    /\ steps < MAXSTEPS /\ steps' = steps + 1
    /\ \/ \E d \in DELTAS : now' = now + d /\ UNCHANGED <<nd, issued, acked, gen, chk>>
       \/ \E src \in SRCS, t \in {<<>>, <<1, 2>>} :
            \/ Query([kind |-> "ping", t |-> t, id |-> 9], src)
            \/ \E w \in {"none", "n4", "n6", "both"}, tg \in {5, 13} : Query([kind |-> "find_node", t |-> t, id |-> 13, target |-> tg, want |-> w], src)
            \/ \E w \in {"none", "n6"} : Query([kind |-> "get_peers", t |-> t, id |-> 9, ih |-> 13, want |-> w], src)
            \/ \E tok \in {r.tok : r \in issued} \cup {<<src.ip, -1>>}, imp \in BOOLEAN :
                  Query([kind |-> "announce_peer", t |-> t, id |-> 9, ih |-> 13, token |-> tok, toklen |-> 20, implied |-> imp, port |-> 7], src)
            \/ Query([kind |-> "announce_peer", t |-> t, id |-> 9, ih |-> 13, token |-> <<"short">>, toklen |-> 7, implied |-> TRUE, port |-> 0], src)
       \/ nd' = SV!HandleOther(nd).st /\ UNCHANGED <<now, issued, acked, gen, chk>>      \* response / error / garbage

Spec == Init /\ [][Next]_vars
ChecksOK == chk.ok
=============================================================================
