SPECIFICATION Spec
CONSTANTS
  K = 2
  BITS = 4
  SELF = 5
  IDS = {5, 4, 7, 1, 13, 12, 10}
  RIDS = {12}
  ADDRS = {"a4:1"}
  ROUTERS = {"r4:9"}
  DELTAS = {1, 30000, 899999, 900000}
  MAXSTEPS = 3
  LowestFirst = FALSE
  GEN = FALSE
INVARIANT ChecksOK
CHECK_DEADLOCK FALSE
