SPECIFICATION Spec
CONSTANTS
  FAMILY = "coop"
  UNI = {1, 3, 6, 12}
  AnnounceC = TRUE
  EndgameQueriesAll = TRUE
INVARIANT Safety
INVARIANT CoopProps
INVARIANT CoopYields
PROPERTY Terminates
CHECK_DEADLOCK FALSE
