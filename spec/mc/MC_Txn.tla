------------------------------- MODULE MC_Txn -------------------------------
(* Design-level check of C19 for small constants: every choice of block permutations, draws through two wraps. *)
EXTENDS Integers, Sequences, FiniteSets, TLC
CONSTANTS BLOCK, MMAX, AMAX, DRAWS
INSTANCE TxnIds
VARIABLES ag, aids, mg, ds
vars == <<ag, aids, mg, ds>>

Perms(start) == {p \in [1..BLOCK -> start..(start + BLOCK - 1)] : IsPermOfRange(p, start, BLOCK)}

Init == /\ \E p \in Perms(0) : ag = AG_Init(p)
        /\ aids = <<>> /\ mg = MG_Init(0) /\ ds = <<>>

DrawMid ==
    /\ Len(ds) < DRAWS
    /\ \E p \in Perms(MG_BlockStart(mg)) :
          LET r == MG_Generate(mg, p) IN mg' = r.st /\ ds' = Append(ds, r.tid)
    /\ UNCHANGED <<ag, aids>>
DrawAid ==
    /\ Len(aids) < DRAWS
    /\ \E p \in Perms(AG_BlockStart(ag)) :
          LET r == AG_Generate(ag, p) IN ag' = r.st /\ aids' = Append(aids, r.aid)
    /\ UNCHANGED <<mg, ds>>
Next == DrawMid \/ DrawAid
Spec == Init /\ [][Next]_vars

Inv == /\ PrefixStable(ds, 0) /\ FirstWindowDistinct(ds) /\ RepeatSpacing(ds)
       /\ LivePrefixesDistinct(aids) /\ \A i \in 1..Len(aids) : aids[i] >= 0 /\ aids[i] < AMAX
\* the stronger sliding-window reading does NOT hold (documented): TLC finds a counterexample
SlidingWindowDistinct == \A i, j \in 1..Len(ds) : (i < j /\ j - i < MMAX) => ds[i] # ds[j]
=============================================================================
