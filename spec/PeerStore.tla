------------------------------ MODULE PeerStore ------------------------------
(***************************************************************************)
(* Announce (peer) storage of a btdht node (src/storage.rs) -- C07.        *)
(*                                                                         *)
(* MECHANISM (transcribed from AnnounceStorage): an expiry queue `q` in    *)
(* insertion order, and a per-info-hash list `idx` that fixes the order in *)
(* which find_items reports addresses.  Expired entries are purged lazily  *)
(* from the HEAD of the queue only (take_while), which is complete because *)
(* a renewal moves the entry to the back.  Capacity counts queue entries.  *)
(*                                                                         *)
(* PROPERTY monitor: `acked` maps every pair (ih, addr) to the time of its *)
(* last acknowledged announce.  What a query must return, and whether an   *)
(* announce must be acknowledged or refused, is stated from `acked` alone. *)
(***************************************************************************)
EXTENDS Integers, Sequences, FiniteSets, SequencesExt

CONSTANTS CAP,   \* 500
          TTL    \* 24 h in ms

\* ---------------------------------------------------------------- mechanism
PS_Init == [q |-> <<>>, idx |-> <<>>]      \* idx: function ih -> Seq(addr), as a TLC function

Expired(e, now) == now - e.at >= TTL

RECURSIVE PrefixExpired(_, _, _)
PrefixExpired(q, now, i) ==
    IF i <= Len(q) /\ Expired(q[i], now) THEN PrefixExpired(q, now, i + 1) ELSE i - 1

IdxGet(idx, ih) == IF ih \in DOMAIN idx THEN idx[ih] ELSE <<>>
IdxSet(idx, ih, s) ==
    IF s = <<>> THEN [k \in DOMAIN idx \ {ih} |-> idx[k]]
    ELSE [k \in DOMAIN idx \cup {ih} |-> IF k = ih THEN s ELSE idx[k]]

RECURSIVE DropFromIdx(_, _, _)
DropFromIdx(idx, q, n) ==     \* remove the first n queue entries from the per-hash lists
    IF n = 0 THEN idx
    ELSE LET e == q[1] IN
         DropFromIdx(IdxSet(idx, e.ih, SelectSeq(IdxGet(idx, e.ih), LAMBDA a : a # e.addr)),
                     Tail(q), n - 1)

PS_Purge(s, now) ==
    LET n == PrefixExpired(s.q, now, 1) IN
    IF n = 0 THEN s
    ELSE [q |-> SubSeq(s.q, n + 1, Len(s.q)), idx |-> DropFromIdx(s.idx, s.q, n)]

PS_Has(s, ih, addr) == \E i \in 1..Len(s.q) : s.q[i].ih = ih /\ s.q[i].addr = addr

\* add_item: returns [st, ok]
PS_Add(s0, ih, addr, now) ==
    LET s == PS_Purge(s0, now)
        ent == [ih |-> ih, addr |-> addr, at |-> now] IN
    IF PS_Has(s, ih, addr)
    THEN [st |-> [q |-> Append(SelectSeq(s.q, LAMBDA e : ~(e.ih = ih /\ e.addr = addr)), ent),
                  idx |-> s.idx],
          ok |-> TRUE]
    ELSE IF Len(s.q) < CAP
    THEN [st |-> [q |-> Append(s.q, ent), idx |-> IdxSet(s.idx, ih, Append(IdxGet(s.idx, ih), addr))],
          ok |-> TRUE]
    ELSE [st |-> s, ok |-> FALSE]

\* find_items: returns [st, out] with out a sequence of addresses in stored order
PS_Find(s0, ih, now) ==
    LET s == PS_Purge(s0, now) IN [st |-> s, out |-> IdxGet(s.idx, ih)]

\* ---------------------------------------------------------- property monitor
\* acked: function <<ih, addr>> -> time of the last acknowledged announce
A_Init == <<>>
A_Ack(acked, ih, addr, now) ==
    [p \in DOMAIN acked \cup {<<ih, addr>>} |-> IF p = <<ih, addr>> THEN now ELSE acked[p]]
A_Prune(acked, now) == [p \in {x \in DOMAIN acked : now - acked[x] <= TTL} |-> acked[p]]

LiveStrict(acked, now) == {p \in DOMAIN acked : now - acked[p] < TTL}
LiveLoose(acked, now)  == {p \in DOMAIN acked : now - acked[p] <= TTL}   \* exact boundary: either way

\* C07 on a query: exactly the addresses announced within the last 24 h, each once
FindOK(acked, ih, now, out) ==
    LET got == {out[i] : i \in 1..Len(out)} IN
    /\ Len(out) = Cardinality(got)                                         \* duplicate-free
    /\ \A p \in LiveStrict(acked, now) : p[1] = ih => p[2] \in got         \* nothing live is missing
    /\ \A a \in got : <<ih, a>> \in LiveLoose(acked, now)                  \* nothing else is reported

\* C07 on an announce with verdict ok: renewal always succeeds; a new pair succeeds iff there is room
AddOK(acked, ih, addr, now, ok) ==
    LET p == <<ih, addr>> IN
    IF p \in LiveStrict(acked, now) THEN ok
    ELSE IF p \in LiveLoose(acked, now) THEN TRUE
    ELSE /\ Cardinality(LiveLoose(acked, now)) < CAP => ok                 \* room (expiry frees capacity)
         /\ Cardinality(LiveStrict(acked, now)) >= CAP => ~ok              \* full: refused

\* capacity bound on what the node holds
BoundedOK(acked, now) == Cardinality(LiveStrict(acked, now)) <= CAP
=============================================================================
