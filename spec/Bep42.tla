-------------------------------- MODULE Bep42 --------------------------------
(***************************************************************************)
(* BEP42 node-id restriction -- the oracle for C20.  Independent           *)
(* transcription of BEP42: CRC32-C (Castagnoli, reflected 0x82F63B78,      *)
(* init/final xor 0xFFFFFFFF) computed bit-serially on two 16-bit halves   *)
(* (TLC integers are 32-bit signed), the address masks, and the check that *)
(* the first 21 bits of the id equal those of the CRC of the masked        *)
(* address combined with r = id[20] & 7.  Pinned to the five vectors       *)
(* published in BEP42 by ASSUME.                                           *)
(***************************************************************************)
EXTENDS Integers, Sequences, Bitwise

\* crc state = <<hi, lo>> (16 bits each)
CrcShift(c) ==
    LET hi == c[1]  lo == c[2]
        bit == lo % 2
        lo1 == (lo \div 2) + (hi % 2) * 32768
        hi1 == hi \div 2 IN
    IF bit = 1 THEN <<hi1 ^^ 33526, lo1 ^^ 15224>>      \* 0x82F6, 0x3B78
    ELSE <<hi1, lo1>>
RECURSIVE CrcBits(_, _)
CrcBits(c, n) == IF n = 0 THEN c ELSE CrcBits(CrcShift(c), n - 1)
CrcByte(c, b) == CrcBits(<<c[1], c[2] ^^ b>>, 8)
RECURSIVE CrcBytes(_, _, _)
CrcBytes(c, bytes, i) == IF i > Len(bytes) THEN c ELSE CrcBytes(CrcByte(c, bytes[i]), bytes, i + 1)
\* CRC32-C of a byte sequence as <<hi16, lo16>>
Crc32c(bytes) == LET c == CrcBytes(<<65535, 65535>>, bytes, 1) IN <<c[1] ^^ 65535, c[2] ^^ 65535>>

V4MASK == <<3, 15, 63, 255>>
V6MASK == <<1, 3, 7, 15, 31, 63, 127, 255>>

\* the bytes that are hashed: masked address octets, r or-ed into the top three bits of the first
Masked(ip, r) ==
    LET n == IF Len(ip) = 4 THEN 4 ELSE 8
        m == IF Len(ip) = 4 THEN V4MASK ELSE V6MASK IN
    [i \in 1..n |-> IF i = 1 THEN (ip[1] & m[1]) | (r * 32) ELSE ip[i] & m[i]]

\* BEP42: does node id `id` (20 bytes) pass validation for address `ip` (4 or 16 bytes)?
Bep42Ok(ip, id) ==
    LET r == id[20] & 7
        c == Crc32c(Masked(ip, r)) IN
    /\ id[1] = c[1] \div 256
    /\ id[2] = c[1] % 256
    /\ (id[3] & 248) = ((c[2] \div 256) & 248)

\* ---- published vectors (BEP42): ip, rand, expected id prefix
Vec(ip, rand, p1, p2, p3) ==
    Bep42Ok(ip, <<p1, p2, p3>> \o [i \in 1..16 |-> 0] \o <<rand>>)
ASSUME Crc32c(<<49, 50, 51, 52, 53, 54, 55, 56, 57>>) = <<58118, 37507>>    \* "123456789" -> 0xE3069283
ASSUME Vec(<<124, 31, 75, 21>>, 1, 95, 191, 191)     \* 5fbfbf
ASSUME Vec(<<21, 75, 31, 124>>, 86, 90, 60, 233)     \* 5a3ce9
ASSUME Vec(<<65, 23, 51, 170>>, 22, 165, 212, 50)    \* a5d432
ASSUME Vec(<<84, 124, 73, 14>>, 65, 27, 3, 33)       \* 1b0321
ASSUME Vec(<<43, 213, 53, 83>>, 90, 229, 111, 108)   \* e56f6c
ASSUME ~Vec(<<43, 213, 53, 83>>, 91, 229, 111, 108)  \* a different r must not validate
=============================================================================
