------------------------------- MODULE Ids160 -------------------------------
(***************************************************************************)
(* 160-bit identifiers as sequences of 20 bytes (0..255), big endian, as   *)
(* they appear on the wire and in traces: XOR metric, common prefix,       *)
(* lexicographic (= numeric) order, single-bit flips.                      *)
(***************************************************************************)
EXTENDS Integers, Sequences, Bitwise

IDLEN == 20
IDBITS == 160
Zero160 == [i \in 1..IDLEN |-> 0]

LeadingZeros8(x) ==
    IF x >= 128 THEN 0 ELSE IF x >= 64 THEN 1 ELSE IF x >= 32 THEN 2 ELSE IF x >= 16 THEN 3
    ELSE IF x >= 8 THEN 4 ELSE IF x >= 4 THEN 5 ELSE IF x >= 2 THEN 6 ELSE IF x >= 1 THEN 7 ELSE 8

RECURSIVE LcpFrom160(_, _, _)
LcpFrom160(a, b, i) ==
    IF i > IDLEN THEN IDBITS
    ELSE IF a[i] = b[i] THEN LcpFrom160(a, b, i + 1)
    ELSE (i - 1) * 8 + LeadingZeros8(a[i] ^^ b[i])
\* table::leading_bit_count
LCP160(a, b) == LcpFrom160(a, b, 1)

Xor160(a, b) == [i \in 1..IDLEN |-> a[i] ^^ b[i]]

RECURSIVE LessFrom(_, _, _)
LessFrom(a, b, i) == IF i > Len(a) THEN FALSE ELSE IF a[i] < b[i] THEN TRUE ELSE IF a[i] > b[i] THEN FALSE ELSE LessFrom(a, b, i + 1)
\* derived Ord on [u8; 20]
Less160(a, b) == LessFrom(a, b, 1)
\* a is strictly closer to target t than b
Closer160(t, a, b) == Less160(Xor160(t, a), Xor160(t, b))

Pow2_8(k) == IF k = 0 THEN 1 ELSE IF k = 1 THEN 2 ELSE IF k = 2 THEN 4 ELSE IF k = 3 THEN 8
             ELSE IF k = 4 THEN 16 ELSE IF k = 5 THEN 32 ELSE IF k = 6 THEN 64 ELSE 128
\* InfoHash::flip_bit(index), index 0 = most significant bit
FlipBit160(a, idx) ==
    LET byte == (idx \div 8) + 1  bit == 7 - (idx % 8) IN
    [a EXCEPT ![byte] = a[byte] ^^ Pow2_8(bit)]
=============================================================================
