----------------------------- MODULE Maintenance -----------------------------
(***************************************************************************)
(* Keeping contacts fresh and purging silent ones over hours -- mechanism  *)
(* model for C11: the contact status rules of RoutingTable.tla driven by   *)
(* the 6 s table refresh (at most 4 questionable, not recently requested   *)
(* contacts per round) and, in the small-network regime, by a re-bootstrap *)
(* pass every 5 s (which, since the C11 repair, does not ask a contact     *)
(* again while a recent request is unanswered and whose late answers are   *)
(* accepted).  Premise of C11: no bucket is full, so the table is a flat   *)
(* set of contacts.  Every contact either always answers (after RTT ms) or *)
(* falls silent at some instant.  Discrete-event time.                     *)
(***************************************************************************)
EXTENDS Integers, Sequences, FiniteSets

CONSTANTS CONTACTS, RTT, REBOOTSTRAP, HORIZON, SILENT_AT, AskAgainWhileUnanswered
\* AskAgainWhileUnanswered = TRUE is the pinned behaviour of the bootstrap pass (it asked a contact for bucket 0 and again,
\* 0.5 s later, for bucket 1): with RTT > 500 an always-answering contact is transiently dropped -- MC must find that.

K == 8  MAXB == 160  ZeroId == 0  PlaceholderAddr == "none"  LowestFirst == TRUE
LCPd(a, b) == 0
RT == INSTANCE RoutingTable WITH LCP <- LCPd

VARIABLES now, ct, mode, inflight, nextRefresh, nextBoot, lastAns, qsince, seen
vars == <<now, ct, mode, inflight, nextRefresh, nextBoot, lastAns, qsince, seen>>

Modes == {[k |-> "answer", t |-> -1]} \cup {[k |-> "silent", t |-> t] : t \in SILENT_AT}
Answers(c, t) == mode[c].k = "answer" \/ t < mode[c].t

Init ==
    /\ now = 0 /\ mode \in [CONTACTS -> Modes]
    /\ ct = [c \in CONTACTS |-> RT!AsGood(c, "a", 0)]        \* everybody answered the initial bootstrap at time 0
    /\ inflight = {} /\ nextRefresh = 6000 /\ nextBoot = IF REBOOTSTRAP THEN 5000 ELSE -1
    /\ lastAns = [c \in CONTACTS |-> 0] /\ qsince = [c \in CONTACTS |-> -1] /\ seen = CONTACTS

St(c, t) == RT!Status(ct[c], t)
Track(ct2, t) == [c \in CONTACTS |-> IF RT!Status(ct2[c], t) = RT!QUEST THEN (IF qsince[c] = -1 THEN t ELSE qsince[c]) ELSE -1]

\* ask the contacts in S at time t: mark the request, schedule the answers of those that answer
Ask(S, t) ==
    /\ ct' = [c \in CONTACTS |-> IF c \in S THEN RT!LocalRequest(ct[c], t) ELSE ct[c]]
    /\ inflight' = inflight \cup {[c |-> c, due |-> t + RTT] : c \in {x \in S : Answers(x, t)}}

NextEvent == LET T == {m.due : m \in inflight} \cup {nextRefresh} \cup (IF nextBoot = -1 THEN {} ELSE {nextBoot}) IN
             CHOOSE t \in T : \A u \in T : t <= u

Refresh ==
    /\ nextRefresh = NextEvent /\ nextRefresh <= HORIZON /\ now' = nextRefresh
    /\ LET cand == {c \in CONTACTS : St(c, nextRefresh) = RT!QUEST /\ ~RT!RecentlyRequested(ct[c], nextRefresh)} IN
       \E S \in SUBSET cand : (Cardinality(S) = 4 \/ (S = cand /\ Cardinality(cand) <= 4)) /\ Ask(S, nextRefresh)
    /\ nextRefresh' = nextRefresh + 6000
    /\ qsince' = Track(ct', nextRefresh)
    /\ UNCHANGED <<mode, nextBoot, lastAns, seen>>

\* a re-bootstrap pass: the bucket phase asks the questionable contacts (bucket 0, and -- pinned behaviour -- bucket 1 again
\* half a second later if the contact is still questionable)
BootPass ==
    /\ nextBoot # -1 /\ nextBoot = NextEvent /\ nextBoot <= HORIZON /\ now' = nextBoot
    /\ LET cand == {c \in CONTACTS : St(c, nextBoot) = RT!QUEST /\ (AskAgainWhileUnanswered \/ ~RT!RecentlyRequested(ct[c], nextBoot))} IN
       IF AskAgainWhileUnanswered /\ RTT > 500
       THEN \* two requests 0.5 s apart, both unanswered so far
            /\ ct' = [c \in CONTACTS |-> IF c \in cand THEN RT!LocalRequest(RT!LocalRequest(ct[c], nextBoot), nextBoot + 500) ELSE ct[c]]
            /\ inflight' = inflight \cup {[c |-> c, due |-> nextBoot + RTT] : c \in {x \in cand : Answers(x, nextBoot)}}
       ELSE Ask(cand, nextBoot)
    /\ nextBoot' = nextBoot + 5000
    /\ qsince' = Track(ct', nextBoot)
    /\ UNCHANGED <<mode, nextRefresh, lastAns, seen>>

Answer(m) ==
    /\ m \in inflight /\ m.due = NextEvent /\ m.due <= HORIZON /\ now' = m.due
    /\ ct' = [ct EXCEPT ![m.c] = RT!Update(ct[m.c], RT!AsGood(m.c, "a", m.due), m.due)]
    /\ inflight' = inflight \ {m}
    /\ lastAns' = [lastAns EXCEPT ![m.c] = m.due]
    /\ qsince' = Track(ct', m.due)
    /\ UNCHANGED <<mode, nextRefresh, nextBoot, seen>>

Next == Refresh \/ BootPass \/ (\E m \in inflight : Answer(m))
Spec == Init /\ [][Next]_vars

\* ---- C11
ResponsiveNeverLost == \A c \in CONTACTS : mode[c].k = "answer" => St(c, now) # RT!BAD
QuestionableAtMost30s == \A c \in CONTACTS : (mode[c].k = "answer" /\ qsince[c] # -1) => now - qsince[c] <= 30000
SilentGoneBy == \A c \in CONTACTS : (mode[c].k # "answer" /\ now > lastAns[c] + 1200000) => St(c, now) = RT!BAD
=============================================================================
