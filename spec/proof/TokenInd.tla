------------------------------- MODULE TokenInd -------------------------------
(***************************************************************************)
(* Unbounded safety of the token mechanism (C06) by an inductive invariant,*)
(* discharged with Apalache (bounded model checking of one step from an    *)
(* arbitrary state satisfying the invariant).                              *)
(*                                                                         *)
(* The mechanism is that of TokenStore.tla (lazy rotation, whole-second    *)
(* truncation, k >= 2 re-randomises both secrets); secrets are integers    *)
(* (only identity matters).  Because the statement of C06 is per token,    *)
(* ONE arbitrary token is tracked: `iat` = when it was handed out, `isec`  *)
(* = the secret it was derived from (has = FALSE before).  Time advances   *)
(* by arbitrary amounts.  The property is an ordinary state invariant      *)
(* thanks to the auxiliary variable prevFrom (the instant the previous     *)
(* secret became current).                                                 *)
(*                                                                         *)
(*   Safe:  the tracked token is valid  =>  it is younger than 30 minutes  *)
(*          it is at most 10 minutes old =>  it is valid                   *)
(* where "valid" is what checkin would answer after its lazy rotation.     *)
(***************************************************************************)
EXTENDS Integers

ROT == 600000

VARIABLES
    \* @type: Int;
    now,
    \* @type: Int;
    cur,
    \* @type: Int;
    prev,
    \* @type: Int;
    last,
    \* @type: Int;
    prevFrom,
    \* @type: Int;
    fresh,
    \* @type: Bool;
    has,
    \* @type: Int;
    iat,
    \* @type: Int;
    isec

\* number of whole rotation intervals since the last rotation, as the code computes it
K(t) == ((t - last) \div 1000) \div 600

\* the state of the store after refresh_check at the current time
CurAfter == IF K(now) = 0 THEN cur ELSE fresh
PrevAfter == IF K(now) = 0 THEN prev ELSE IF K(now) = 1 THEN cur ELSE fresh + 1
ValidNow == has /\ (isec = CurAfter \/ isec = PrevAfter)

Init ==
    /\ now = 0 /\ cur = 0 /\ prev = 1 /\ last = 0 /\ prevFrom = 0 /\ fresh = 2
    /\ has = FALSE /\ iat = 0 /\ isec = -1

Refresh ==
    IF K(now) = 0 THEN UNCHANGED <<cur, prev, last, prevFrom, fresh>>
    ELSE IF K(now) = 1 THEN cur' = fresh /\ prev' = cur /\ prevFrom' = last /\ last' = now /\ fresh' = fresh + 2
    ELSE cur' = fresh /\ prev' = fresh + 1 /\ prevFrom' = now /\ last' = now /\ fresh' = fresh + 2

\* any checkout / checkin (they differ only in what they return): lazy rotation
Touch == Refresh /\ UNCHANGED <<now, has, iat, isec>>
\* the checkout that hands out the tracked token
Issue == ~has /\ Refresh /\ has' = TRUE /\ iat' = now /\ isec' = cur' /\ UNCHANGED now
Advance == \E d \in Nat : d > 0 /\ now' = now + d /\ UNCHANGED <<cur, prev, last, prevFrom, fresh, has, iat, isec>>
Next == Touch \/ Issue \/ Advance

\* ---- the statement
Safe ==
    /\ ValidNow => now - iat < 1800000
    /\ (has /\ now - iat <= 600000) => ValidNow

\* ---- inductive invariant
IndInv ==
    /\ last <= now /\ prevFrom <= last /\ 0 <= prevFrom
    /\ cur < fresh /\ prev < fresh /\ cur # prev /\ cur >= 0 /\ prev >= 0 /\ fresh >= 2
    /\ last - prevFrom < 1200000                                     \* a k = 1 rotation happens before 20 minutes have passed
    /\ (prevFrom # last => last - prevFrom >= 600000)
    /\ has =>
         /\ iat <= now /\ 0 <= iat /\ isec < fresh /\ isec >= 0
         /\ (isec = cur => (iat >= last /\ iat - last < 600000))        \* from the current secret: issued within 10 min of its creation
         /\ (isec = prev => (iat >= prevFrom /\ iat < last /\ iat - prevFrom < 600000))   \* from the previous one: while that was current
         /\ ((isec # cur /\ isec # prev) => iat < last)              \* forgotten secrets are old ...
         /\ ((isec # cur /\ isec # prev) => now - iat > 600000 \/ last - iat >= 600000)
    /\ ~has => isec = -1
    /\ Safe
\* an arbitrary state satisfying the invariant (assignment form for Apalache)
IndInit ==
    /\ now \in Int /\ cur \in Int /\ prev \in Int /\ last \in Int /\ prevFrom \in Int /\ fresh \in Int
    /\ has \in BOOLEAN /\ iat \in Int /\ isec \in Int
    /\ IndInv
=============================================================================
