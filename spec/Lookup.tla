------------------------------- MODULE Lookup -------------------------------
(***************************************************************************)
(* One search (TableLookup, src/action/lookup.rs) as a timed state         *)
(* machine -- the design-level model for C02, C03, C04.                    *)
(*                                                                         *)
(* The mechanism itself is LookupCore.tla (pure step operators transcribed *)
(* from the code: the sorted candidate list with its "pinged" flags, the   *)
(* ALPHA initial picks, the BETA iteration picks with insert_closest_      *)
(* nodes' replace-don't-shift behaviour, the distance to beat per          *)
(* outstanding query, the end-game, late answers to timed-out queries, the *)
(* announce to the first ANN candidates that sent a token).  The same      *)
(* operators predict every query of every recorded search in               *)
(* trace/NodeTrace.tla, so what is model-checked here is what is compared  *)
(* with the code there.                                                    *)
(*                                                                         *)
(* This module adds what the mechanism does not contain: time (1.5 s       *)
(* time-outs per query, one 1.5 s timer for the end-game) and the          *)
(* environment -- a universe of remote nodes; what each does with a query  *)
(* is fixed per behaviour: answer after a delay with a node list / peers / *)
(* token, or stay silent; some datagrams cannot be sent.  Time is          *)
(* discrete-event: the next step is always an earliest pending event (a    *)
(* delivery or a timer).                                                   *)
(***************************************************************************)
EXTENDS Integers, Sequences, FiniteSets

CONSTANTS ALPHA, BETA, ANN, MAXC,      \* 4, 3, 8, 8 in the code
          TIMEOUT,                     \* 1500 ms, for queries and for the end-game
          Dist(_, _),                  \* XOR distance of two ids as a number
          Target, Announce,
          Universe,                    \* set of remote nodes (ids)
          EndgameQueriesAll,           \* TRUE: the end-game queries every unqueried candidate (the code); FALSE: a broken variant
          ENVS                         \* the environments to explore: records [initial, delay, names, peers, sendok]

VARIABLE env   \* the environment of this behaviour (chosen initially, never changes)
Initial == env.initial                 \* ids of the good table nodes the search starts from (in the order of the table walk)
Delay(n) == env.delay[n]               \* answer delay in ms, or -1 (never answers)
Names(n) == env.names[n]               \* the ids it lists in its answer
Peers(n) == env.peers[n]               \* the peers it returns
SendOk(n) == env.sendok[n]             \* can a datagram to it be sent

VARIABLES now,
          lk,        \* the mechanism's state (LookupCore): t, cands, active, timedout, requested, toks, eg, amb
          meta,      \* transaction id -> [node, at, eg]: whom it was sent to, when, in the end-game or not (the timers)
          tokv,      \* node -> the token it sent last
          egAt, yielded, announced, done, doneAt,
          inflight,  \* the answers under way: [tid, node, due]
          nextTid, log
vars == <<env, now, lk, meta, tokv, egAt, yielded, announced, done, doneAt, inflight, nextTid, log>>

CloserD(t, a, b) == Dist(t, a) < Dist(t, b)
LC == INSTANCE LookupCore WITH Closer <- CloserD
D(n) == Dist(Target, n)
H(n) == [id |-> n]
cands == lk.cands
endgame == lk.eg

Min2(a, b) == IF a < b THEN a ELSE b
FSet(f, k, v) == [x \in DOMAIN f \cup {k} |-> IF x = k THEN v ELSE f[x]]
SeqOf(S) == LET RECURSIVE F(_) F(T) == IF T = {} THEN <<>> ELSE LET x == CHOOSE y \in T : \A z \in T : D(y) <= D(z) IN <<x>> \o F(T \ {x}) IN F(S)

\* ---- the environment's side of a batch of attempts made at time t: transaction ids, which datagrams leave, log, timers, answers
Oks(picks) == [i \in 1..Len(picks) |-> SendOk(picks[i].h.id)]
Book(b, picks, t, isEg) ==
    LET n == Len(picks)
        tid(i) == b.nextTid + i - 1 IN
    [nextTid |-> b.nextTid + n,
     log |-> b.log \o [i \in 1..n |-> [ev |-> "query", tid |-> tid(i), node |-> picks[i].h.id, at |-> t, ok |-> SendOk(picks[i].h.id)]],
     meta |-> [x \in DOMAIN b.meta \cup {tid(i) : i \in 1..n} |->
                  IF x \in DOMAIN b.meta THEN b.meta[x] ELSE [node |-> picks[x - b.nextTid + 1].h.id, at |-> t, eg |-> isEg]],
     inflight |-> b.inflight \cup {[tid |-> tid(i), node |-> picks[i].h.id, due |-> t + Delay(picks[i].h.id)] :
                                     i \in {j \in 1..n : SendOk(picks[j].h.id) /\ Delay(picks[j].h.id) >= 0}}]
Tids(b, n) == [i \in 1..n |-> b.nextTid + i - 1]

\* a step of the mechanism that may send: the round picked by LookupCore, then the end-game if nothing is outstanding any more
Go(st, picks, t, b) ==
    LET n == Len(picks)
        st1 == IF n = 0 THEN st ELSE LC!AfterRound(st, picks, Tids(b, n), Oks(picks))
        b1 == Book(b, picks, t, FALSE)
        eg == LC!NeedEndgame(st1)
        ep == IF eg /\ EndgameQueriesAll THEN LC!EgPicks(st1) ELSE <<>>
        st2 == IF ~eg THEN st1
               ELSE IF EndgameQueriesAll THEN LC!AfterEndgame(st1, Tids(b1, Len(ep)), Oks(ep))
               ELSE [st1 EXCEPT !.eg = TRUE]
        b2 == Book(b1, ep, t, TRUE) IN
    [st |-> st2, b |-> b2, eg |-> eg]
Pack == [nextTid |-> nextTid, log |-> log, meta |-> meta, inflight |-> inflight]

Init ==
    /\ env \in ENVS
    /\ LET N == LC!New([i \in 1..Len(Initial) |-> H(Initial[i])], Target)
           b0 == [nextTid |-> 1, log |-> <<>>, meta |-> <<>>, inflight |-> {}]
           n == Len(N.picks)
           st == LC!AfterRound(N.st, N.picks, Tids(b0, n), Oks(N.picks))
           b == Book(b0, N.picks, 0, FALSE) IN
       /\ now = 0 /\ lk = st /\ meta = b.meta /\ inflight = b.inflight /\ nextTid = b.nextTid /\ log = b.log
       /\ tokv = <<>> /\ egAt = -1 /\ yielded = <<>> /\ announced = <<>>
       \* lookup.completed(): nothing could be queried -> recv_finished at once
       /\ done = (DOMAIN st.active = {}) /\ doneAt = IF DOMAIN st.active = {} THEN 0 ELSE -1

\* ---- events
Earliest(t) ==
    /\ \A m \in inflight : m.due >= t
    /\ \A x \in DOMAIN lk.active : (~meta[x].eg /\ ~lk.eg) => meta[x].at + TIMEOUT >= t
    /\ (lk.eg => egAt + TIMEOUT >= t)

Deliver(m) ==
    /\ ~done /\ m \in inflight /\ Earliest(m.due) /\ now' = m.due
    /\ LET names == Names(m.node)
           R == LC!OnResponse(lk, m.tid, H(m.node), [i \in 1..Len(names) |-> H(names[i])], TRUE)
           G == Go(R.st, R.picks, m.due, [Pack EXCEPT !.inflight = @ \ {m}])
           vals == Peers(m.node) IN
       /\ lk' = G.st /\ meta' = G.b.meta /\ inflight' = G.b.inflight /\ nextTid' = G.b.nextTid
       /\ log' = IF R.consumed THEN Append(G.b.log, [ev |-> "consumed", tid |-> m.tid, at |-> m.due]) ELSE G.b.log
       /\ egAt' = IF G.eg THEN m.due ELSE egAt
       /\ tokv' = IF R.consumed THEN FSet(tokv, m.node, [by |-> m.node, tid |-> m.tid]) ELSE tokv
       /\ yielded' = IF R.consumed THEN yielded \o [i \in 1..Len(vals) |-> [addr |-> vals[i], tid |-> m.tid]] ELSE yielded
       /\ UNCHANGED <<announced, done, doneAt>>

Timeout(x) ==
    /\ ~done /\ ~lk.eg /\ x \in DOMAIN lk.active /\ ~meta[x].eg
    /\ Earliest(meta[x].at + TIMEOUT) /\ now' = meta[x].at + TIMEOUT
    /\ LET G == Go(LC!OnTimeout(lk, x), <<>>, meta[x].at + TIMEOUT, Pack) IN
       /\ lk' = G.st /\ meta' = G.b.meta /\ inflight' = G.b.inflight /\ nextTid' = G.b.nextTid
       /\ log' = Append(G.b.log, [ev |-> "timeout", tid |-> x, at |-> meta[x].at + TIMEOUT])
       /\ egAt' = IF G.eg THEN meta[x].at + TIMEOUT ELSE egAt
    /\ UNCHANGED <<tokv, yielded, announced, done, doneAt>>

Finish ==
    LET hs == LC!Announces(lk) IN
    IF Announce THEN [i \in 1..Len(hs) |-> [dst |-> hs[i].id, token |-> tokv[hs[i].id]]] ELSE <<>>

EndgameFires ==
    /\ ~done /\ lk.eg /\ Earliest(egAt + TIMEOUT) /\ now' = egAt + TIMEOUT
    /\ announced' = Finish /\ done' = TRUE /\ doneAt' = egAt + TIMEOUT
    /\ UNCHANGED <<lk, meta, tokv, egAt, yielded, inflight, nextTid, log>>

Next == UNCHANGED env /\ ((\E m \in inflight : Deliver(m)) \/ (\E x \in DOMAIN lk.active : Timeout(x)) \/ EndgameFires)
Spec == Init /\ [][Next]_vars /\ WF_vars(Next)

(***************************************************************************)
(* Properties                                                              *)
(***************************************************************************)
Queries == {log[i] : i \in {j \in 1..Len(log) : log[j].ev = "query"}}
QueryOf(tid) == CHOOSE q \in Queries : q.tid = tid
\* C03: every yielded peer came with an answer to a query of this search; announces go only to nodes that answered with a
\* token, at most ANN, only if requested
YieldJustified == \A i \in 1..Len(yielded) : \E q \in Queries : q.tid = yielded[i].tid /\ q.ok
AnnounceOK ==
    /\ Len(announced) <= ANN /\ (~Announce => announced = <<>>)
    /\ \A i \in 1..Len(announced) : announced[i].dst \in DOMAIN tokv /\ announced[i].token = tokv[announced[i].dst]
    /\ \A i, j \in 1..Len(announced) : i # j => announced[i].dst # announced[j].dst
\* C04: the search ends neither early nor never
Unanswered == {q \in Queries : q.ok /\ ~\E i \in 1..Len(log) : log[i].ev = "consumed" /\ log[i].tid = q.tid}
NoEarlyClose == done => \A q \in Unanswered : doneAt - q.at >= TIMEOUT \/ (\E q2 \in Queries : ~q2.ok)
T0 == IF Queries = {} THEN 0 ELSE CHOOSE t \in {q.at : q \in Queries} : \A q \in Queries : t <= q.at
Told == {q.node : q \in Queries} \cup {cands[i].h.id : i \in 1..Len(cands)}
ClosedBy == done => doneAt <= T0 + TIMEOUT * Cardinality(Told) + 2 * TIMEOUT
SilentCloseAt3s == (done /\ Queries # {} /\ (\A q \in Queries : q.ok) /\ ~\E i \in 1..Len(log) : log[i].ev = "consumed") => doneAt = T0 + 2 * TIMEOUT
ImmediateWhenNothingToAsk == (Queries = {}) => (done /\ doneAt = 0)
Terminates == <>done
\* C02 (checked in cooperative configurations only): announced to exactly the ANN closest nodes of the universe, every
\* peer of every answering node delivered
ClosestOfUniverse ==
    LET S == SeqOf(Universe) IN {S[i] : i \in 1..Min2(ANN, Len(S))}
CoopAnnounce == (done /\ Announce /\ Queries # {}) => {announced[i].dst : i \in 1..Len(announced)} = ClosestOfUniverse
=============================================================================
