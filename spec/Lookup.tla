------------------------------- MODULE Lookup -------------------------------
(***************************************************************************)
(* One search (TableLookup, src/action/lookup.rs) as a timed state         *)
(* machine -- mechanism for C02, C03, C04.                                 *)
(*                                                                         *)
(* Transcribed: the sorted candidate list with its "queried" flags         *)
(* (insert_sorted_node), the ALPHA initial picks, the BETA iteration picks *)
(* with insert_closest_nodes' replace-don't-shift behaviour, the distance  *)
(* to beat per outstanding query, 1.5 s time-outs, the end-game (one 1.5 s *)
(* timer, every unqueried candidate is queried), late answers to timed-out *)
(* queries (accepted while the search runs), the announce to the first ANN *)
(* candidates that sent a token.                                           *)
(*                                                                         *)
(* The environment is a universe of remote nodes; what each does with a    *)
(* query is a constant function Behave: answer after a delay with a node   *)
(* list / peers / token, or stay silent.  Time is discrete-event: the next *)
(* step is always an earliest pending event (a delivery or a timer).       *)
(***************************************************************************)
EXTENDS Integers, Sequences, FiniteSets

CONSTANTS ALPHA, BETA, ANN, MAXC,      \* 4, 3, 8, 8 in the code
          TIMEOUT,                     \* 1500 ms, for queries and for the end-game
          Dist(_, _),                  \* XOR distance of two ids as a number
          Target, Announce,
          Universe,                    \* set of remote nodes (ids)
          EndgameQueriesAll,           \* TRUE: the end-game queries every unqueried candidate (the code); FALSE: a broken variant
          ENVS                         \* the environments to explore: records [initial, delay, names, peers, sendok]

VARIABLE env   \* the environment of this behaviour (chosen initially, never changes)
Initial == env.initial                 \* ids of the good table nodes the search starts from (in the order of the table walk)
Delay(n) == env.delay[n]               \* answer delay in ms, or -1 (never answers)
Names(n) == env.names[n]               \* the ids it lists in its answer
Peers(n) == env.peers[n]               \* the peers it returns
SendOk(n) == env.sendok[n]             \* can a datagram to it be sent

VARIABLES now, cands, active, timedout, requested, toks, endgame, egAt, yielded, announced, done, doneAt,
          inflight, nextTid, log
vars == <<env, now, cands, active, timedout, requested, toks, endgame, egAt, yielded, announced, done, doneAt, inflight, nextTid, log>>

D(n) == Dist(Target, n)
\* insert_sorted_node: keep the list sorted by distance; an id already present is not inserted again
InsertSorted(cs, n, q) ==
    IF \E i \in 1..Len(cs) : cs[i].id = n THEN cs
    ELSE LET k == Cardinality({i \in 1..Len(cs) : D(cs[i].id) < D(n)}) IN
         SubSeq(cs, 1, k) \o <<[id |-> n, queried |-> q]>> \o SubSeq(cs, k + 1, Len(cs))
RECURSIVE InsertAll(_, _, _)
InsertAll(cs, ns, picked) ==
    IF ns = <<>> THEN cs ELSE InsertAll(InsertSorted(cs, Head(ns), Head(ns) \in picked), Tail(ns), picked)

\* insert_closest_nodes over BETA slots (0 = unused)
RECURSIVE PlaceIn(_, _, _)
PlaceIn(slots, n, i) ==
    IF i > Len(slots) THEN slots
    ELSE IF slots[i] = -1 THEN [slots EXCEPT ![i] = n]
    ELSE IF D(n) < D(slots[i]) THEN [slots EXCEPT ![i] = n]
    ELSE PlaceIn(slots, n, i + 1)
RECURSIVE PickIterate(_, _)
PickIterate(ns, slots) == IF ns = <<>> THEN slots ELSE PickIterate(Tail(ns), PlaceIn(slots, Head(ns), 1))
Picked(slots) == {slots[i] : i \in {j \in 1..Len(slots) : slots[j] # -1}}

Min2(a, b) == IF a < b THEN a ELSE b
RECURSIVE MinDist(_, _)
MinDist(ns, acc) == IF ns = <<>> THEN acc ELSE MinDist(Tail(ns), Min2(acc, D(Head(ns))))

\* start_request_round: returns the new [active, requested, inflight, nextTid, log]
RECURSIVE Round(_, _, _, _)
Round(st, ns, dtb, t) ==
    IF ns = <<>> THEN st
    ELSE LET n == Head(ns)
             tid == st.nextTid
             ok == SendOk(n)
             st1 == [st EXCEPT !.nextTid = @ + 1,
                               !.active = @ \cup {[tid |-> tid, dtb |-> dtb, node |-> n, at |-> t, eg |-> FALSE]},
                               !.log = Append(@, [ev |-> "query", tid |-> tid, node |-> n, at |-> t, ok |-> ok])]
             st2 == IF ok THEN [st1 EXCEPT !.requested = @ \cup {n}, !.sent = @ + 1,
                                           !.inflight = IF Delay(n) >= 0 THEN @ \cup {[tid |-> tid, node |-> n, due |-> t + Delay(n)]} ELSE @]
                    ELSE st1 IN
         Round(st2, Tail(ns), dtb, t)
\* messages_sent == 0 => active_lookups.clear()
RoundDone(st0, ns, dtb, t) ==
    LET st == Round([st0 EXCEPT !.sent = 0], ns, dtb, t) IN
    IF st.sent = 0 THEN [st EXCEPT !.active = {}] ELSE st

Pack == [active |-> active, requested |-> requested, inflight |-> inflight, nextTid |-> nextTid, log |-> log, sent |-> 0]

SeqOf(S) == LET RECURSIVE F(_) F(T) == IF T = {} THEN <<>> ELSE LET x == CHOOSE y \in T : \A z \in T : D(y) <= D(z) IN <<x>> \o F(T \ {x}) IN F(S)

InitWith ==
    LET c0 == InsertAll(<<>>, SubSeq(Initial, 1, Min2(Len(Initial), MAXC)), {})
        k == Min2(ALPHA, Len(c0))
        c1 == [i \in 1..Len(c0) |-> IF i <= k THEN [c0[i] EXCEPT !.queried = TRUE] ELSE c0[i]]
        base == [active |-> {}, requested |-> {}, inflight |-> {}, nextTid |-> 1, log |-> <<>>, sent |-> 0]
        \* every initial pick is queried with ITS OWN distance as the distance to beat
        RECURSIVE Each(_, _)
        Each(st, i) == IF i > k THEN st ELSE Each(Round(st, <<c1[i].id>>, D(c1[i].id), 0), i + 1)
        st0 == Each(base, 1)
        st == IF st0.sent = 0 THEN [st0 EXCEPT !.active = {}] ELSE st0 IN
    /\ now = 0 /\ cands = c1 /\ active = st.active /\ requested = st.requested /\ inflight = st.inflight
    /\ nextTid = st.nextTid /\ log = st.log /\ timedout = {} /\ toks = <<>> /\ endgame = FALSE /\ egAt = -1
    /\ yielded = <<>> /\ announced = <<>>
    \* lookup.completed(): nothing could be queried -> recv_finished at once
    /\ done = (st.active = {}) /\ doneAt = IF st.active = {} THEN 0 ELSE -1

FSet(f, k, v) == [x \in DOMAIN f \cup {k} |-> IF x = k THEN v ELSE f[x]]

\* start_endgame_round on state record st (already containing the updated active set)
StartEndgame(cs, st, t) ==
    LET unq == {i \in 1..Len(cs) : ~cs[i].queried}
        RECURSIVE Go(_, _, _)
        Go(c, s, i) ==
            IF i > Len(c) THEN [c |-> c, s |-> s]
            ELSE IF c[i].queried THEN Go(c, s, i + 1)
            ELSE LET n == c[i].id
                     tid == s.nextTid
                     ok == SendOk(n)
                     s1 == [s EXCEPT !.nextTid = @ + 1,
                                     !.active = @ \cup {[tid |-> tid, dtb |-> D(n), node |-> n, at |-> t, eg |-> TRUE]},
                                     !.log = Append(@, [ev |-> "query", tid |-> tid, node |-> n, at |-> t, ok |-> ok]),
                                     !.inflight = IF ok /\ Delay(n) >= 0 THEN @ \cup {[tid |-> tid, node |-> n, due |-> t + Delay(n)]} ELSE @] IN
                 Go(IF ok THEN [c EXCEPT ![i].queried = TRUE] ELSE c, s1, i + 1) IN
    IF EndgameQueriesAll THEN Go(cs, st, 1) ELSE [c |-> cs, s |-> st]

Finish(cs, tk) ==
    LET withTok == SelectSeq(cs, LAMBDA c : c.id \in DOMAIN tk)
        pick == SubSeq(withTok, 1, Min2(ANN, Len(withTok))) IN
    IF Announce THEN [i \in 1..Len(pick) |-> [dst |-> pick[i].id, token |-> tk[pick[i].id]]] ELSE <<>>

Init == env \in ENVS /\ InitWith

\* ---- events
Earliest(t) ==
    /\ \A m \in inflight : m.due >= t
    /\ \A a \in active : (~a.eg /\ ~endgame) => a.at + TIMEOUT >= t
    /\ (endgame => egAt + TIMEOUT >= t)

Deliver(m) ==
    /\ ~done /\ m \in inflight /\ Earliest(m.due) /\ now' = m.due
    /\ LET a == {x \in active : x.tid = m.tid}
           late == m.tid \in timedout
           tk2 == FSet(toks, m.node, [by |-> m.node, tid |-> m.tid])
           vals == Peers(m.node) IN
       IF a # {} THEN
           LET act == CHOOSE x \in a : TRUE
               names == SelectSeq(Names(m.node), LAMBDA n : TRUE)
               fresh == SelectSeq(names, LAMBDA n : n \notin requested)
               nd == MinDist(fresh, act.dtb)
               iter == IF names # <<>> /\ nd < act.dtb THEN Picked(PickIterate(fresh, [i \in 1..BETA |-> -1])) ELSE {}
               cs1 == InsertAll(cands, names, iter)
               st0 == [Pack EXCEPT !.active = active \ a, !.inflight = inflight \ {m}]
               st1 == IF ~endgame /\ iter # {} THEN RoundDone(st0, SeqOf(iter), nd, m.due) ELSE st0
               eg == ~endgame /\ st1.active = {}
               r == IF eg THEN StartEndgame(cs1, st1, m.due) ELSE [c |-> cs1, s |-> st1] IN
           /\ cands' = r.c /\ active' = r.s.active /\ requested' = r.s.requested /\ inflight' = r.s.inflight
           /\ nextTid' = r.s.nextTid /\ log' = Append(r.s.log, [ev |-> "consumed", tid |-> m.tid, at |-> m.due])
           /\ endgame' = (endgame \/ eg) /\ egAt' = IF eg THEN m.due ELSE egAt
           /\ toks' = tk2 /\ yielded' = yielded \o [i \in 1..Len(vals) |-> [addr |-> vals[i], tid |-> m.tid]]
           /\ UNCHANGED <<timedout, announced, done, doneAt>>
       ELSE IF late THEN
           /\ toks' = tk2 /\ yielded' = yielded \o [i \in 1..Len(vals) |-> [addr |-> vals[i], tid |-> m.tid]]
           /\ timedout' = timedout \ {m.tid} /\ inflight' = inflight \ {m}
           /\ log' = Append(log, [ev |-> "consumed", tid |-> m.tid, at |-> m.due])
           /\ UNCHANGED <<cands, active, requested, endgame, egAt, announced, done, doneAt, nextTid>>
       ELSE /\ inflight' = inflight \ {m}
            /\ UNCHANGED <<cands, active, timedout, requested, toks, endgame, egAt, yielded, announced, done, doneAt, nextTid, log>>

Timeout(a) ==
    /\ ~done /\ ~endgame /\ a \in active /\ ~a.eg /\ Earliest(a.at + TIMEOUT) /\ now' = a.at + TIMEOUT
    /\ LET st1 == [Pack EXCEPT !.active = active \ {a}]
           eg == st1.active = {}
           r == IF eg THEN StartEndgame(cands, st1, a.at + TIMEOUT) ELSE [c |-> cands, s |-> st1] IN
       /\ cands' = r.c /\ active' = r.s.active /\ inflight' = r.s.inflight /\ nextTid' = r.s.nextTid
       /\ log' = Append(r.s.log, [ev |-> "timeout", tid |-> a.tid, at |-> a.at + TIMEOUT])
       /\ endgame' = eg /\ egAt' = IF eg THEN a.at + TIMEOUT ELSE egAt
       /\ timedout' = timedout \cup {a.tid}
    /\ UNCHANGED <<requested, toks, yielded, announced, done, doneAt>>

EndgameFires ==
    /\ ~done /\ endgame /\ Earliest(egAt + TIMEOUT) /\ now' = egAt + TIMEOUT
    /\ announced' = Finish(cands, toks) /\ done' = TRUE /\ doneAt' = egAt + TIMEOUT
    /\ UNCHANGED <<cands, active, timedout, requested, toks, endgame, egAt, yielded, inflight, nextTid, log>>

Next == UNCHANGED env /\ ((\E m \in inflight : Deliver(m)) \/ (\E a \in active : Timeout(a)) \/ EndgameFires)
Spec == Init /\ [][Next]_vars /\ WF_vars(Next)

(***************************************************************************)
(* Properties                                                              *)
(***************************************************************************)
Queries == {log[i] : i \in {j \in 1..Len(log) : log[j].ev = "query"}}
QueryOf(tid) == CHOOSE q \in Queries : q.tid = tid
\* C03: every yielded peer came with an answer to a query of this search; announces go only to nodes that answered with a
\* token, at most ANN, only if requested
YieldJustified == \A i \in 1..Len(yielded) : \E q \in Queries : q.tid = yielded[i].tid /\ q.ok
AnnounceOK ==
    /\ Len(announced) <= ANN /\ (~Announce => announced = <<>>)
    /\ \A i \in 1..Len(announced) : announced[i].dst \in DOMAIN toks /\ announced[i].token = toks[announced[i].dst]
    /\ \A i, j \in 1..Len(announced) : i # j => announced[i].dst # announced[j].dst
\* C04: the search ends neither early nor never
Unanswered == {q \in Queries : q.ok /\ ~\E i \in 1..Len(log) : log[i].ev = "consumed" /\ log[i].tid = q.tid}
NoEarlyClose == done => \A q \in Unanswered : doneAt - q.at >= TIMEOUT \/ (\E q2 \in Queries : ~q2.ok)
T0 == IF Queries = {} THEN 0 ELSE CHOOSE t \in {q.at : q \in Queries} : \A q \in Queries : t <= q.at
Told == {q.node : q \in Queries} \cup {cands[i].id : i \in 1..Len(cands)}
ClosedBy == done => doneAt <= T0 + TIMEOUT * Cardinality(Told) + 2 * TIMEOUT
SilentCloseAt3s == (done /\ Queries # {} /\ (\A q \in Queries : q.ok) /\ ~\E i \in 1..Len(log) : log[i].ev = "consumed") => doneAt = T0 + 2 * TIMEOUT
ImmediateWhenNothingToAsk == (Queries = {}) => (done /\ doneAt = 0)
Terminates == <>done
\* C02 (checked in cooperative configurations only): announced to exactly the ANN closest nodes of the universe, every
\* peer of every answering node delivered
ClosestOfUniverse ==
    LET S == SeqOf(Universe) IN {S[i] : i \in 1..Min2(ANN, Len(S))}
CoopAnnounce == (done /\ Announce /\ Queries # {}) => {announced[i].dst : i \in 1..Len(announced)} = ClosestOfUniverse
=============================================================================
