------------------------------- MODULE Server -------------------------------
(***************************************************************************)
(* The serving side of a node (DhtHandler::handle_incoming) -- mechanism   *)
(* for C05, C06, C07, C09, C12, C17.  One operator per query kind, each =  *)
(* "mark a remote request on a known contact" o component step o "exactly  *)
(* one reply, computed".  A node state is the record                       *)
(*    [id, fam, ro, table, ts, ps]                                         *)
(* (routing table, token store, peer store as in the component modules).   *)
(* Abstract messages are records; a reply is [dst, t, y, ...].             *)
(***************************************************************************)
EXTENDS Integers, Sequences, FiniteSets, TLC

CONSTANTS K, MAXB, LCP(_, _), ZeroId, PlaceholderAddr, LowestFirst,   \* RoutingTable
          ROT, CAP, TTL,                                              \* TokenStore, PeerStore
          Tok(_, _),                                                  \* token derived from (ip, secret)
          Fam(_), Ip(_), WithPort(_, _)                               \* address structure

RT == INSTANCE RoutingTable
TS == INSTANCE TokenStore
PS == INSTANCE PeerStore

Take8(s) == IF Len(s) <= 8 THEN s ELSE SubSeq(s, 1, 8)
HandlesOf(cs) == [i \in 1..Len(cs) |-> RT!Handle(cs[i])]

\* find_closest_nodes(target, want): node lists per family
WantFams(nd, want) == IF want = "n4" THEN {4} ELSE IF want = "n6" THEN {6} ELSE IF want = "both" THEN {4, 6} ELSE {nd.fam}
Closest8(nd, target, now, fam) ==
    HandlesOf(Take8(SelectSeq(RT!Closest(nd.table, target, now), LAMBDA c : Fam(c.addr) = fam)))
NodeLists(nd, target, want, now) ==
    [n4 |-> IF 4 \in WantFams(nd, want) THEN Closest8(nd, target, now, 4) ELSE <<>>,
     n6 |-> IF 6 \in WantFams(nd, want) THEN Closest8(nd, target, now, 6) ELSE <<>>]

MarkRemote(nd, qid, src, now) == [nd EXCEPT !.table = RT!TMarkRemote(nd.table, [id |-> qid, addr |-> src], now)]

\* q = [kind, t, id, target / ih, want, token, port, implied]; f1, f2: fresh secrets if the token store rotates
\* returns [st, out] where out is a sequence of replies (empty for a read-only node)
HandleQuery(nd0, q, src, now, f1, f2) ==
    IF nd0.ro THEN [st |-> nd0, out |-> <<>>]
    ELSE LET nd == MarkRemote(nd0, q.id, src, now)
             base == [dst |-> src, t |-> q.t, id |-> nd.id] IN
    CASE q.kind = "ping" -> [st |-> nd, out |-> <<base @@ [y |-> "r", kind |-> "pong"]>>]
      [] q.kind = "find_node" ->
            [st |-> nd, out |-> <<base @@ [y |-> "r", kind |-> "nodes", nodes |-> NodeLists(nd, q.target, q.want, now)]>>]
      [] q.kind = "get_peers" ->
            LET f == PS!PS_Find(nd.ps, q.ih, now)
                ts2 == TS!TS_Checkout(nd.ts, now, f1, f2) IN
            [st |-> [nd EXCEPT !.ps = f.st, !.ts = ts2],
             out |-> <<base @@ [y |-> "r", kind |-> "peers",
                                values |-> SelectSeq(f.out, LAMBDA a : Fam(a) = Fam(src)),
                                nodes |-> NodeLists(nd, q.ih, q.want, now),
                                token |-> Tok(Ip(src), TS!TS_TokenSecret(ts2))]>>]
      [] q.kind = "announce_peer" ->
            LET wellformed == q.toklen = 20
                ts2 == IF wellformed THEN TS!TS_Refresh(nd.ts, now, f1, f2) ELSE nd.ts
                valid == wellformed /\ \E sec \in TS!TS_ValidSecrets(ts2) : q.token = Tok(Ip(src), sec)
                contact == IF q.implied THEN src ELSE WithPort(src, q.port) IN
            IF ~valid THEN [st |-> [nd EXCEPT !.ts = ts2], out |-> <<base @@ [y |-> "e", code |-> 203]>>]
            ELSE LET a == PS!PS_Add(nd.ps, q.ih, contact, now) IN
                 [st |-> [nd EXCEPT !.ts = ts2, !.ps = a.st],
                  out |-> <<IF a.ok THEN base @@ [y |-> "r", kind |-> "ack"] ELSE base @@ [y |-> "e", code |-> 202]>>]

\* errors, undecodable datagrams and responses with a transaction id the node never used: nothing changes, nothing is sent
HandleOther(nd) == [st |-> nd, out |-> <<>>]
=============================================================================
