-------------------------------- MODULE Wire --------------------------------
(***************************************************************************)
(* KRPC messages and their canonical bencoding (BEP3 / BEP5 / BEP32) --    *)
(* the oracle for C13 and the size model for C17.  Written from the BEP    *)
(* documents, independent of serde and of the bencode library.             *)
(*                                                                         *)
(* Byte strings are sequences of 0..255.  An abstract message is a record  *)
(*   [t, kind, id, target, info_hash, want, port, token, hastoken,         *)
(*    values, nodes, nodes6, code, msg]                                    *)
(* where kind is "ping" | "find_node" | "get_peers" | "announce_peer" |    *)
(* "resp" | "err"; want is "none" | "n4" | "n6" | "both"; port = -1 means  *)
(* implied_port; values are [ip, port], nodes are [id, ip, port] with ip a *)
(* sequence of 4 or 16 bytes.  Only the fields of its kind are looked at.  *)
(***************************************************************************)
EXTENDS Integers, Sequences, TLC

S_a == <<97>>
S_e == <<101>>
S_q == <<113>>
S_r == <<114>>
S_t == <<116>>
S_y == <<121>>
S_id == <<105, 100>>
S_implied_port == <<105, 109, 112, 108, 105, 101, 100, 95, 112, 111, 114, 116>>
S_info_hash == <<105, 110, 102, 111, 95, 104, 97, 115, 104>>
S_port == <<112, 111, 114, 116>>
S_target == <<116, 97, 114, 103, 101, 116>>
S_token == <<116, 111, 107, 101, 110>>
S_want == <<119, 97, 110, 116>>
S_nodes == <<110, 111, 100, 101, 115>>
S_nodes6 == <<110, 111, 100, 101, 115, 54>>
S_values == <<118, 97, 108, 117, 101, 115>>
S_ping == <<112, 105, 110, 103>>
S_find_node == <<102, 105, 110, 100, 95, 110, 111, 100, 101>>
S_get_peers == <<103, 101, 116, 95, 112, 101, 101, 114, 115>>
S_announce_peer == <<97, 110, 110, 111, 117, 110, 99, 101, 95, 112, 101, 101, 114>>
S_n4 == <<110, 52>>
S_n6 == <<110, 54>>

RECURSIVE Digits(_)
Digits(n) == IF n < 10 THEN <<48 + n>> ELSE Digits(n \div 10) \o <<48 + (n % 10)>>

BStr(s) == Digits(Len(s)) \o <<58>> \o s
BInt(i) == <<105>> \o (IF i < 0 THEN <<45>> \o Digits(0 - i) ELSE Digits(i)) \o <<101>>
RECURSIVE Concat(_)
Concat(ss) == IF ss = <<>> THEN <<>> ELSE Head(ss) \o Concat(Tail(ss))
BList(items) == <<108>> \o Concat(items) \o <<101>>
\* pairs = <<key bytes, encoded value>> already in ascending key order
BDict(pairs) == <<100>> \o Concat([i \in 1..Len(pairs) |-> BStr(pairs[i][1]) \o pairs[i][2]]) \o <<101>>

Port2(p) == <<p \div 256, p % 256>>
CompactPeer(a) == a.ip \o Port2(a.port)                       \* 6 or 18 bytes
CompactNode(n) == n.id \o n.ip \o Port2(n.port)               \* 26 or 38 bytes
WantList(w) == IF w = "n4" THEN BList(<<BStr(S_n4)>>) ELSE IF w = "n6" THEN BList(<<BStr(S_n6)>>)
               ELSE BList(<<BStr(S_n4), BStr(S_n6)>>)
Opt(c, pair) == IF c THEN <<pair>> ELSE <<>>

Args(m) ==
    CASE m.kind = "ping" -> BDict(<< <<S_id, BStr(m.id)>> >>)
      [] m.kind = "find_node" ->
            BDict(<< <<S_id, BStr(m.id)>>, <<S_target, BStr(m.target)>> >> \o Opt(m.want # "none", <<S_want, WantList(m.want)>>))
      [] m.kind = "get_peers" ->
            BDict(<< <<S_id, BStr(m.id)>>, <<S_info_hash, BStr(m.info_hash)>> >> \o Opt(m.want # "none", <<S_want, WantList(m.want)>>))
      [] m.kind = "announce_peer" ->
            BDict(<< <<S_id, BStr(m.id)>> >> \o Opt(m.port = -1, <<S_implied_port, BInt(1)>>)
                  \o << <<S_info_hash, BStr(m.info_hash)>>, <<S_port, BInt(IF m.port = -1 THEN 0 ELSE m.port)>>,
                        <<S_token, BStr(m.token)>> >>)

Method(m) == CASE m.kind = "ping" -> S_ping [] m.kind = "find_node" -> S_find_node
               [] m.kind = "get_peers" -> S_get_peers [] m.kind = "announce_peer" -> S_announce_peer

RespDict(m) ==
    BDict(<< <<S_id, BStr(m.id)>> >>
          \o Opt(Len(m.nodes) > 0, <<S_nodes, BStr(Concat([i \in 1..Len(m.nodes) |-> CompactNode(m.nodes[i])]))>>)
          \o Opt(Len(m.nodes6) > 0, <<S_nodes6, BStr(Concat([i \in 1..Len(m.nodes6) |-> CompactNode(m.nodes6[i])]))>>)
          \o Opt(m.hastoken, <<S_token, BStr(m.token)>>)
          \o Opt(Len(m.values) > 0, <<S_values, BList([i \in 1..Len(m.values) |-> BStr(CompactPeer(m.values[i]))])>>))

\* the canonical encoding prescribed by BEP3/5/32 (keys in ascending order)
Encode(m) ==
    IF m.kind = "resp" THEN BDict(<< <<S_r, RespDict(m)>>, <<S_t, BStr(m.t)>>, <<S_y, BStr(S_r)>> >>)
    ELSE IF m.kind = "err" THEN BDict(<< <<S_e, BList(<<BInt(m.code), BStr(m.msg)>>)>>, <<S_t, BStr(m.t)>>, <<S_y, BStr(S_e)>> >>)
    ELSE BDict(<< <<S_a, Args(m)>>, <<S_q, BStr(Method(m))>>, <<S_t, BStr(m.t)>>, <<S_y, BStr(S_q)>> >>)

\* ---- size model (C17): length of a response as a function of its abstract sizes
DigitsLen(n) == IF n < 10 THEN 1 ELSE IF n < 100 THEN 2 ELSE IF n < 1000 THEN 3 ELSE IF n < 10000 THEN 4 ELSE 5
StrLen(n) == DigitsLen(n) + 1 + n
\* response with tid of tl bytes, n4 IPv4 nodes, n6 IPv6 nodes, token of tokl bytes (or -1), k values of vlen bytes each
RespLen(tl, n4, n6, tokl, k, vlen) ==
    LET r == 2 + (4 + StrLen(20))                                                 \* d 2:id 20:.. e
             + (IF n4 > 0 THEN 7 + StrLen(26 * n4) ELSE 0)                        \* 5:nodes
             + (IF n6 > 0 THEN 8 + StrLen(38 * n6) ELSE 0)                        \* 6:nodes6
             + (IF tokl >= 0 THEN 7 + StrLen(tokl) ELSE 0)                        \* 5:token
             + (IF k > 0 THEN 8 + 2 + k * StrLen(vlen) ELSE 0) IN                 \* 6:values l..e
    2 + (3 + r) + (3 + StrLen(tl)) + (3 + 3)                                      \* d 1:r.. 1:t.. 1:y1:r e

\* BEP5 example messages (http://bittorrent.org/beps/bep_0005.html) pin the encoder
EX_id == <<97,98,99,100,101,102,103,104,105,106,48,49,50,51,52,53,54,55,56,57>>       \* abcdefghij0123456789
EX_tg == <<109,110,111,112,113,114,115,116,117,118,119,120,121,122,49,50,51,52,53,54>> \* mnopqrstuvwxyz123456
Q0 == [t |-> <<97,97>>, id |-> EX_id, want |-> "none"]
ASSUME Encode(Q0 @@ [kind |-> "ping"]) =
    <<100,49,58,97,100,50,58,105,100,50,48,58>> \o EX_id \o <<101,49,58,113,52,58,112,105,110,103,49,58,116,50,58,97,97,49,58,121,49,58,113,101>>
ASSUME Len(Encode(Q0 @@ [kind |-> "find_node", target |-> EX_tg])) = 92
ASSUME Len(Encode(Q0 @@ [kind |-> "get_peers", info_hash |-> EX_tg])) = 95
ASSUME Len(Encode(Q0 @@ [kind |-> "announce_peer", info_hash |-> EX_tg, port |-> 6881, token |-> <<97,111,101,117,115,110,116,104>>])) = 129
ASSUME Encode([kind |-> "err", t |-> <<97,97>>, code |-> 201, msg |-> <<65>>]) = <<100,49,58,101,108,105,50,48,49,101,49,58,65,101,49,58,116,50,58,97,97,49,58,121,49,58,101,101>>
ASSUME \A k \in {0, 1, 7, 150}, n \in {0, 8} :
    RespLen(2, n, 0, 20, k, 6) =
    Len(Encode([kind |-> "resp", t |-> <<1, 2>>, id |-> EX_id, hastoken |-> TRUE, token |-> EX_id,
                nodes |-> [i \in 1..n |-> [id |-> EX_id, ip |-> <<1,2,3,4>>, port |-> 1]], nodes6 |-> <<>>,
                values |-> [i \in 1..k |-> [ip |-> <<1,2,3,4>>, port |-> i]]]))
=============================================================================
