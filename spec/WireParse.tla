------------------------------ MODULE WireParse ------------------------------
(***************************************************************************)
(* The decoding side of the wire specification (BEP3 / BEP5 / BEP32):      *)
(*   Parse      bytes -> generic bencode tree (or failure)                 *)
(*   Interpret  tree  -> abstract KRPC message of Wire.tla (or "reject")   *)
(* with the acceptance rules that C13 states: keys in any order, keys      *)
(* unknown to BEP5/32 ignored at every level, `y` selects q / r / e, `q`   *)
(* must name the method whose required arguments are present, ids exactly  *)
(* 20 bytes, node strings a multiple of 26 / 38 bytes, peers 6 or 18 bytes.*)
(* Integers are kept as digit strings (bencode integers may exceed TLC's   *)
(* 32-bit range) and converted only where a small number is required.      *)
(* Trees: [k |-> "int", neg, digits] | [k |-> "str", s] | [k |-> "list", l]*)
(*        | [k |-> "dict", d]  with d a sequence of <<key bytes, tree>>.   *)
(***************************************************************************)
EXTENDS Wire

Fail == [ok |-> FALSE]
IsDigit(c) == c >= 48 /\ c <= 57

RECURSIVE ScanDigits(_, _, _)
\* longest run of digits starting at i: returns the index after it
ScanDigits(s, i, stop) == IF i <= Len(s) /\ IsDigit(s[i]) THEN ScanDigits(s, i + 1, stop) ELSE i
RECURSIVE ToNat(_, _, _)
ToNat(ds, i, acc) == IF i > Len(ds) THEN acc ELSE ToNat(ds, i + 1, acc * 10 + (ds[i] - 48))
\* a digit string as a number if it has at most 7 digits, else -1
SmallNat(ds) == IF Len(ds) = 0 \/ Len(ds) > 7 THEN -1 ELSE ToNat(ds, 1, 0)

RECURSIVE ParseValue(_, _, _), ParseItems(_, _, _, _), ParsePairs(_, _, _, _)
\* returns [ok, v, next]
ParseValue(s, i, depth) ==
    IF i > Len(s) \/ depth > 40 THEN Fail
    ELSE LET c == s[i] IN
    IF c = 105 THEN                                                         \* i<digits>e
        LET neg == i + 1 <= Len(s) /\ s[i + 1] = 45
            st == IF neg THEN i + 2 ELSE i + 1
            en == ScanDigits(s, st, 0) IN
        IF en = st \/ en > Len(s) \/ s[en] # 101 THEN Fail
        ELSE [ok |-> TRUE, v |-> [k |-> "int", neg |-> neg, digits |-> SubSeq(s, st, en - 1)], next |-> en + 1]
    ELSE IF IsDigit(c) THEN                                                 \* <len>:<bytes>
        LET en == ScanDigits(s, i, 0)
            n == SmallNat(SubSeq(s, i, en - 1)) IN
        IF en > Len(s) \/ s[en] # 58 \/ n < 0 \/ en + n > Len(s) THEN Fail
        ELSE [ok |-> TRUE, v |-> [k |-> "str", s |-> SubSeq(s, en + 1, en + n)], next |-> en + n + 1]
    ELSE IF c = 108 THEN ParseItems(s, i + 1, depth + 1, <<>>)
    ELSE IF c = 100 THEN ParsePairs(s, i + 1, depth + 1, <<>>)
    ELSE Fail
ParseItems(s, i, depth, acc) ==
    IF i > Len(s) THEN Fail
    ELSE IF s[i] = 101 THEN [ok |-> TRUE, v |-> [k |-> "list", l |-> acc], next |-> i + 1]
    ELSE LET r == ParseValue(s, i, depth) IN
         IF ~r.ok THEN Fail ELSE ParseItems(s, r.next, depth, Append(acc, r.v))
ParsePairs(s, i, depth, acc) ==
    IF i > Len(s) THEN Fail
    ELSE IF s[i] = 101 THEN [ok |-> TRUE, v |-> [k |-> "dict", d |-> acc], next |-> i + 1]
    ELSE LET kk == ParseValue(s, i, depth) IN
         IF ~kk.ok \/ kk.v.k # "str" THEN Fail
         ELSE LET vv == ParseValue(s, kk.next, depth) IN
              IF ~vv.ok THEN Fail ELSE ParsePairs(s, vv.next, depth, Append(acc, <<kk.v.s, vv.v>>))
\* the first value of the datagram (what follows it is not looked at, as in the implementation)
Parse(s) == ParseValue(s, 1, 0)

\* ---- dictionary access: the FIRST entry with that key (duplicate keys are outside what C13 specifies)
Has(t, key) == t.k = "dict" /\ \E i \in 1..Len(t.d) : t.d[i][1] = key
Get(t, key) == t.d[CHOOSE i \in 1..Len(t.d) : t.d[i][1] = key /\ \A j \in 1..(i - 1) : t.d[j][1] # key][2]
StrOf(t, key) == IF Has(t, key) /\ Get(t, key).k = "str" THEN Get(t, key).s ELSE <<-1>>
IsStr(t, key) == Has(t, key) /\ Get(t, key).k = "str"
IntOf(t, key) == IF Has(t, key) /\ Get(t, key).k = "int" /\ ~Get(t, key).neg THEN SmallNat(Get(t, key).digits) ELSE -1

Reject == [kind |-> "reject"]
Base == [id |-> <<>>, target |-> <<>>, info_hash |-> <<>>, want |-> "none", port |-> 0, token |-> <<>>, hastoken |-> FALSE,
         values |-> <<>>, nodes |-> <<>>, nodes6 |-> <<>>, code |-> 0, msg |-> <<>>]

WantOf(a) ==
    IF ~Has(a, S_want) THEN "none"
    ELSE LET w == Get(a, S_want) IN
         IF w.k # "list" THEN "bad"
         ELSE LET has4 == \E i \in 1..Len(w.l) : w.l[i].k = "str" /\ w.l[i].s = S_n4
                  has6 == \E i \in 1..Len(w.l) : w.l[i].k = "str" /\ w.l[i].s = S_n6 IN
              IF has4 /\ has6 THEN "both" ELSE IF has4 THEN "n4" ELSE IF has6 THEN "n6" ELSE "none"

Nodes(bytes, alen) ==
    LET step == 20 + alen  n == Len(bytes) \div step IN
    [i \in 1..n |-> [id |-> SubSeq(bytes, (i - 1) * step + 1, (i - 1) * step + 20),
                     ip |-> SubSeq(bytes, (i - 1) * step + 21, (i - 1) * step + 20 + alen - 2),
                     port |-> bytes[i * step - 1] * 256 + bytes[i * step]]]
Peer(b) == [ip |-> SubSeq(b, 1, Len(b) - 2), port |-> b[Len(b) - 1] * 256 + b[Len(b)]]

InterpretQuery(t, top) ==
    LET a == Get(top, S_a)  q == StrOf(top, S_q)  id == StrOf(a, S_id) IN
    IF ~Has(top, S_a) \/ a.k # "dict" \/ Len(id) # 20 \/ WantOf(a) = "bad" THEN Reject
    ELSE IF q = S_ping THEN [kind |-> "ping", t |-> t, id |-> id] @@ Base
    ELSE IF q = S_find_node THEN
        IF Len(StrOf(a, S_target)) # 20 THEN Reject
        ELSE [kind |-> "find_node", t |-> t, id |-> id, target |-> StrOf(a, S_target), want |-> WantOf(a)] @@ Base
    ELSE IF q = S_get_peers THEN
        IF Len(StrOf(a, S_info_hash)) # 20 THEN Reject
        ELSE [kind |-> "get_peers", t |-> t, id |-> id, info_hash |-> StrOf(a, S_info_hash), want |-> WantOf(a)] @@ Base
    ELSE IF q = S_announce_peer THEN
        LET implied == Has(a, S_implied_port) /\ IntOf(a, S_implied_port) # 0
            port == IntOf(a, S_port) IN
        IF Len(StrOf(a, S_info_hash)) # 20 \/ ~IsStr(a, S_token) \/ port < 0 \/ port > 65535 THEN Reject
        ELSE [kind |-> "announce_peer", t |-> t, id |-> id, info_hash |-> StrOf(a, S_info_hash),
              port |-> IF implied THEN -1 ELSE port, token |-> StrOf(a, S_token)] @@ Base
    ELSE Reject

InterpretResponse(t, top) ==
    LET r == Get(top, S_r)  id == StrOf(r, S_id)
        n4 == IF IsStr(r, S_nodes) THEN StrOf(r, S_nodes) ELSE <<>>
        n6 == IF IsStr(r, S_nodes6) THEN StrOf(r, S_nodes6) ELSE <<>>
        vals == IF Has(r, S_values) THEN Get(r, S_values) ELSE [k |-> "list", l |-> <<>>] IN
    IF ~Has(top, S_r) \/ r.k # "dict" \/ Len(id) # 20 \/ Len(n4) % 26 # 0 \/ Len(n6) % 38 # 0 \/ vals.k # "list"
       \/ (Has(r, S_nodes) /\ ~IsStr(r, S_nodes)) \/ (Has(r, S_nodes6) /\ ~IsStr(r, S_nodes6)) \/ (Has(r, S_token) /\ ~IsStr(r, S_token))
       \/ \E i \in 1..Len(vals.l) : vals.l[i].k # "str" \/ Len(vals.l[i].s) \notin {6, 18}
    THEN Reject
    ELSE [kind |-> "resp", t |-> t, id |-> id, hastoken |-> Has(r, S_token), token |-> IF Has(r, S_token) THEN StrOf(r, S_token) ELSE <<>>,
          values |-> [i \in 1..Len(vals.l) |-> Peer(vals.l[i].s)], nodes |-> Nodes(n4, 6), nodes6 |-> Nodes(n6, 18)] @@ Base

InterpretError(t, top) ==
    LET e == Get(top, S_e) IN
    IF ~Has(top, S_e) \/ e.k # "list" \/ Len(e.l) # 2 \/ e.l[1].k # "int" \/ e.l[1].neg \/ SmallNat(e.l[1].digits) < 0
       \/ SmallNat(e.l[1].digits) > 255 \/ e.l[2].k # "str" THEN Reject
    ELSE [kind |-> "err", t |-> t, code |-> SmallNat(e.l[1].digits), msg |-> e.l[2].s] @@ Base

\* the message a datagram denotes, or Reject
Interpret(bytes) ==
    LET p == Parse(bytes) IN
    IF ~p.ok \/ p.v.k # "dict" \/ ~IsStr(p.v, S_t) \/ ~IsStr(p.v, S_y) THEN Reject
    ELSE LET top == p.v  t == StrOf(top, S_t)  y == StrOf(top, S_y) IN
         IF y = S_q THEN InterpretQuery(t, top)
         ELSE IF y = S_r THEN InterpretResponse(t, top)
         ELSE IF y = S_e THEN InterpretError(t, top)
         ELSE Reject

\* the decoder of the specification inverts its encoder on the BEP5 examples
ASSUME Interpret(Encode(Q0 @@ [kind |-> "ping"] @@ Base)) = (Q0 @@ [kind |-> "ping"] @@ Base)
ASSUME Interpret(Encode([kind |-> "err", t |-> <<97, 97>>, code |-> 201, msg |-> <<65>>] @@ Base)).code = 201
ASSUME Interpret(<<100, 49, 58, 116, 57, 57, 57, 57, 57, 57, 57, 57, 57, 57, 57, 58>>) = Reject      \* d1:t99999999999:
=============================================================================
