------------------------------- MODULE TxnIds -------------------------------
(***************************************************************************)
(* Transaction-id generators (src/transaction.rs) -- C19.                  *)
(* An id is <<prefix, mid>>: the 5-byte action prefix of the activity and  *)
(* a 3-byte message id.  Both generators hand out ids from pre-allocated,  *)
(* shuffled blocks of BLOCK consecutive numbers and wrap to 0 exactly when *)
(* the allocation marker equals the maximum (MMAX = 2^24, AMAX = 2^40).    *)
(***************************************************************************)
EXTENDS Integers, Sequences, FiniteSets

CONSTANTS BLOCK, MMAX, AMAX

\* message-id generator of one activity: [aid, next, idx, block]
MG_Init(aid) == [aid |-> aid, next |-> 0, idx |-> BLOCK, block |-> [i \in 1..BLOCK |-> 0]]
MG_NeedsBlock(g) == g.idx >= BLOCK
MG_BlockStart(g) == IF g.next = MMAX THEN 0 ELSE g.next
IsPermOfRange(p, start, n) == Len(p) = n /\ {p[i] : i \in 1..n} = start..(start + n - 1)
\* generate(): `perm` is the shuffled fresh block (used only when a new block is needed)
MG_Generate(g, perm) ==
    LET g1 == IF MG_NeedsBlock(g)
              THEN [g EXCEPT !.block = perm, !.next = MG_BlockStart(g) + BLOCK, !.idx = 0]
              ELSE g IN
    [st |-> [g1 EXCEPT !.idx = @ + 1], tid |-> <<g1.aid, g1.block[g1.idx + 1]>>]

\* action-id generator: [next, idx, block]; AIDGenerator::new() pre-allocates the first block
AG_Init(perm) == [next |-> BLOCK, idx |-> 0, block |-> perm]
AG_NeedsBlock(g) == g.idx >= BLOCK
AG_BlockStart(g) == IF g.next = AMAX THEN 0 ELSE g.next
AG_Generate(g, perm) ==
    LET g1 == IF AG_NeedsBlock(g)
              THEN [g EXCEPT !.block = perm, !.next = AG_BlockStart(g) + BLOCK, !.idx = 0]
              ELSE g IN
    [st |-> [g1 EXCEPT !.idx = @ + 1], aid |-> g1.block[g1.idx + 1]]

(***************************************************************************)
(* Property statements (C19) over the sequence `ds` of ids drawn from one  *)
(* activity and over the set of prefixes of concurrently live activities.  *)
(***************************************************************************)
PrefixStable(ds, aid) == \A i \in 1..Len(ds) : ds[i][1] = aid /\ ds[i][2] >= 0 /\ ds[i][2] < MMAX
\* ids do not repeat until MMAX have been issued
FirstWindowDistinct(ds) ==
    \A i, j \in 1..Len(ds) : (i < j /\ j <= MMAX) => ds[i] # ds[j]
\* mechanism-level spacing of repeats (not part of the statement): at least MMAX - BLOCK + 1 apart
RepeatSpacing(ds) ==
    \A i, j \in 1..Len(ds) : (i < j /\ ds[i] = ds[j]) => j - i >= MMAX - BLOCK + 1
\* distinct live activities never share a prefix, as long as fewer than AMAX - BLOCK activities were started in
\* between (2^40 - 2048 in the code: blocks are shuffled, so a prefix can recur slightly less than AMAX draws later)
LivePrefixesDistinct(aids) == \A i, j \in 1..Len(aids) : (i < j /\ j - i <= AMAX - BLOCK) => aids[i] # aids[j]
=============================================================================
