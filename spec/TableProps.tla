----------------------------- MODULE TableProps -----------------------------
(***************************************************************************)
(* Property statements C08, C09, C10 over OBSERVABLE table states: a table *)
(* record (as dumped from the real RoutingTable, or as computed by the     *)
(* mechanism in the model), the operation applied, and -- for C10 -- a     *)
(* per-contact history of events.  The standing of a contact is whatever   *)
(* is REPORTED for it, RStatus(c, now): in the model the mechanism's       *)
(* Status, on traces the status the real code reported in the dump.        *)
(***************************************************************************)
EXTENDS RoutingTable

CONSTANT RStatus(_, _)

SlotC(t, p) == t.buckets[p[1]][p[2]]
RLive(c, now) == RStatus(c, now) # BAD
RLiveSlots(t, now) == {p \in AllSlots(t) : RLive(SlotC(t, p), now)}
RLiveHandles(t, now) == {Handle(SlotC(t, p)) : p \in RLiveSlots(t, now)}
StatusOfHandle(t, h, now) ==
    LET S == {p \in RLiveSlots(t, now) : Handle(SlotC(t, p)) = h} IN
    IF S = {} THEN BAD ELSE RStatus(SlotC(t, CHOOSE p \in S : TRUE), now)
BucketOfHandle(t, h, now) == (CHOOSE p \in RLiveSlots(t, now) : Handle(SlotC(t, p)) = h)[1]

\* --------------------------------------------------------------- C08 shape
ShapeOK(t, now) ==
    LET ls == RLiveSlots(t, now)
        lh == {Handle(SlotC(t, p)) : p \in ls} IN
    /\ \A h \in lh : h.id # t.self /\ h.addr \notin t.routers          \* never the own id, never a router
    /\ Cardinality(lh) = Cardinality(ls)                                 \* no (id, address) pair twice
    /\ \A p \in ls :                                                     \* every node in the bucket of its prefix length
          LET lcp == LCP(t.self, SlotC(t, p).id) IN
          IF p[1] < NB(t) THEN lcp = p[1] - 1 ELSE lcp >= NB(t) - 1
    /\ NB(t) >= 1 /\ NB(t) <= MAXB /\ \A b \in 1..NB(t) : Len(t.buckets[b]) = K

\* ------------------------------------------------------- C08 on an Offer step
\* a contact with handle h is offered with standing sx (GOOD = it answered us, QUEST = hearsay); t -> t2
Admissible(t, h) == h.addr \notin t.routers /\ LCP(t.self, h.id) # MAXB
OfferOK(t, h, sx, t2, now) ==
    LET ls1 == RLiveSlots(t, now)
        lh1 == {Handle(SlotC(t, p)) : p \in ls1}
        lh2 == RLiveHandles(t2, now)
        lostSlots == {p \in ls1 : Handle(SlotC(t, p)) \notin lh2}
        bi2 == BucketIndex(t2, h.id) + 1
        admitted == h \in lh2
        adm == Admissible(t, h) IN
    /\ Cardinality(lostSlots) <= 1                                          \* loses at most one
    /\ \A p \in lostSlots : RStatus(SlotC(t, p), now) < sx                  \* only a strictly worse one
    /\ \A p \in lostSlots : \A i \in 1..K :                                \* never while a free/bad slot exists
            RStatus(t.buckets[p[1]][i], now) # BAD
    /\ ~adm => lh2 = lh1                                                    \* filtered offers change nothing
    /\ ~admitted => lostSlots = {}                                          \* rejected newcomers evict nobody
    /\ adm =>                                                               \* admitted when room / a worse node exists
          \/ admitted
          \/ /\ \A i \in 1..K : RStatus(t2.buckets[bi2][i], now) >= sx
             /\ ~(bi2 = NB(t2) /\ bi2 # MAXB)                               \* and the bucket could not be split
    /\ NB(t2) >= NB(t)                                                      \* only the last bucket is ever split:
    /\ \A b \in 1..(NB(t) - 1) : b # BucketIndex(t, h.id) + 1 => t2.buckets[b] = t.buckets[b]

\* ------------------------------------------------------------------ C09
SeqToSet(s) == {s[i] : i \in 1..Len(s)}
Distinct(s) == Cardinality(SeqToSet(s)) = Len(s)
\* hs: the sequence of handles enumerated for a target
EnumOK(t, now, hs) == Distinct(hs) /\ SeqToSet(hs) = RLiveHandles(t, now)
\* reply: handles listed in a find_node / get_peers reply for `target`, restricted to family fam
ReplyOK(t, target, now, reply, fam(_)) ==
    LET cand == {h \in RLiveHandles(t, now) : fam(h.addr)} IN
    /\ Distinct(reply)
    /\ SeqToSet(reply) \subseteq cand
    /\ Len(reply) = Min2(8, Cardinality(cand))
    /\ \A h \in cand : LCP(h.id, target) > LCP(t.self, target) => h \in SeqToSet(reply)

\* ------------------------------------------------------------------ C10
\* hist: function handle -> [ans, qry, run, hs]
HNew(hsay, now) == [ans |-> IF hsay THEN NONE ELSE now, qry |-> NONE, run |-> 0, hs |-> hsay]
HGet(hist, h) == IF h \in DOMAIN hist THEN hist[h] ELSE [ans |-> NONE, qry |-> NONE, run |-> 0, hs |-> FALSE]
HSet(hist, h, r) == [x \in DOMAIN hist \cup {h} |-> IF x = h THEN r ELSE hist[x]]
\* forget contacts that are no longer reported (a later mention is a new admission)
HPrune(hist, t, now) == [x \in DOMAIN hist \cap RLiveHandles(t, now) |-> hist[x]]

\* history update for an event on handle h, given the observed tables before (t) / after (t2)
HAnswer(hist, h, t2, now) ==
    IF h \in RLiveHandles(t2, now) THEN HSet(hist, h, [HGet(hist, h) EXCEPT !.ans = now, !.run = 0, !.hs = FALSE]) ELSE hist
HHearsay(hist, h, t, t2, now) ==
    IF h \notin RLiveHandles(t, now) /\ h \in RLiveHandles(t2, now) THEN HSet(hist, h, HNew(TRUE, now)) ELSE hist
HQueryFrom(hist, h, t, now) ==
    IF h \in RLiveHandles(t, now) THEN HSet(hist, h, [HGet(hist, h) EXCEPT !.qry = now, !.hs = FALSE]) ELSE hist
HQuerySent(hist, h, t, now) ==
    IF h \in RLiveHandles(t, now) /\ StatusOfHandle(t, h, now) # GOOD
    THEN HSet(hist, h, [HGet(hist, h) EXCEPT !.run = @ + 1]) ELSE hist

RecentlyActive(r, now) == (r.ans # NONE /\ now - r.ans < FIFTEEN) \/ (r.qry # NONE /\ now - r.qry < FIFTEEN)
\* every reported contact is classified as the statement of C10 allows
ClassifyOK(hist, t, now) ==
    \A p \in RLiveSlots(t, now) :
        LET c == SlotC(t, p)  r == HGet(hist, Handle(c))  st == RStatus(c, now) IN
        /\ st = GOOD => RecentlyActive(r, now)                 \* good only if it answered / queried within 15 min
        /\ r.hs => st = QUEST                                  \* hearsay-only contacts are questionable
        /\ ~(r.run >= 2 /\ ~RecentlyActive(r, now))            \* two unanswered queries while not good: dropped
\* a reported contact is not dropped by the mere passage of time, a query sent to it or a query received from it
\* unless it has left two queries unanswered while not good ("fail to respond to multiple queries in a row")
NoSpuriousDropT(hist2, t, before, t2, now) ==
    \A p \in RLiveSlots(t, before) :
        LET h == Handle(SlotC(t, p)) IN
        HGet(hist2, h).run < 2 => h \in RLiveHandles(t2, now)
NoSpuriousDrop(hist2, t, t2, now) == NoSpuriousDropT(hist2, t, now, t2, now)
AnswerGood(t2, h, now) == h \in RLiveHandles(t2, now) => StatusOfHandle(t2, h, now) = GOOD
=============================================================================
