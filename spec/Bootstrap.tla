------------------------------ MODULE Bootstrap ------------------------------
(***************************************************************************)
(* The bootstrap worker (TableBootstrapInner::run, src/action/bootstrap.rs)*)
(* as a timed state machine -- mechanism for the timing part of C15.       *)
(*                                                                         *)
(* Transcribed: the attempt loop; the first round waits for its answers    *)
(* for at most 2.5 s (INITIAL_TIMEOUT) and, beyond nine contacts, throttles*)
(* its sends by 0.5 s each; no answer => IdleBeforeRebootstrap and a       *)
(* back-off of 2^min(attempt+1, CAP) seconds, attempt + 1; an answer =>    *)
(* the bucket phase (160 rounds, each waiting at most 0.5 s), then         *)
(* Bootstrapped unless fewer than 10 good nodes were found AND routers are *)
(* configured; attempt := 0; while bootstrapped the table is checked every *)
(* 5 s and the loop restarts when fewer than 10 good nodes are left.       *)
(*                                                                         *)
(* Environment: the network is unreachable until some instant `upAt`,      *)
(* chosen adversarially right after an attempt's datagrams were lost       *)
(* ("however long and however often the network was unreachable before");  *)
(* from then on at least one contact answers everything.                   *)
(***************************************************************************)
EXTENDS Integers

CONSTANTS CAP,          \* exponent cap of the back-off (9 in the code)
          NCONTACTS,    \* number of configured contacts (plain nodes)
          ROUTERS,      \* TRUE: routers are configured
          GOODFOUND,    \* good nodes in the table after a successful bucket phase
          BUCKET_MS,    \* duration of the bucket phase (0 .. 80 000 ms)
          MAXATTEMPTS

VARIABLES now, pc, attempt, upAt, bootAt, tries
vars == <<now, pc, attempt, upAt, bootAt, tries>>

RECURSIVE Pow2(_)
Pow2(n) == IF n = 0 THEN 1 ELSE 2 * Pow2(n - 1)
Min(a, b) == IF a < b THEN a ELSE b
Backoff(a) == 1000 * Pow2(Min(a + 1, CAP))
\* sending to more than nine contacts is throttled by 0.5 s per further contact
SendSpan == IF NCONTACTS > 9 THEN (NCONTACTS - 9) * 500 ELSE 0
InitialWait == 2500

Init == now = 0 /\ pc = "Initial" /\ attempt = 0 /\ upAt = -1 /\ bootAt = -1 /\ tries = 0

\* an attempt whose datagrams are all lost: the worker waits for the answers in vain, then backs off
AttemptFails ==
    /\ pc = "Initial" /\ upAt = -1 /\ tries < MAXATTEMPTS
    /\ now' = now + SendSpan + InitialWait + Backoff(attempt)
    /\ attempt' = attempt + 1 /\ tries' = tries + 1
    /\ UNCHANGED <<pc, upAt, bootAt>>
\* the network becomes reachable right after the datagrams of the current attempt were lost (worst case for the waiters)
ComesUpJustTooLate ==
    /\ pc = "Initial" /\ upAt = -1
    /\ upAt' = now + 1
    /\ now' = now + SendSpan + InitialWait + Backoff(attempt)
    /\ attempt' = attempt + 1 /\ tries' = tries + 1
    /\ UNCHANGED <<pc, bootAt>>
\* the network is reachable when the attempt starts
AttemptSucceeds ==
    /\ pc = "Initial" /\ (upAt # -1 \/ tries = 0)
    /\ upAt' = IF upAt = -1 THEN 0 ELSE upAt
    /\ now' = now + SendSpan + InitialWait + BUCKET_MS       \* at worst the silent contacts are waited for
    /\ IF GOODFOUND < 10 /\ ROUTERS
       THEN pc' = "Initial" /\ attempt' = attempt + 1 /\ bootAt' = bootAt /\ tries' = tries + 1
       ELSE pc' = "Booted" /\ attempt' = 0 /\ bootAt' = now' /\ tries' = tries
Next == AttemptFails \/ ComesUpJustTooLate \/ AttemptSucceeds
Spec == Init /\ [][Next]_vars

\* C15: with plain nodes, bootstrapped within 11 minutes of a contact becoming responsive
ResponsiveBound == (~ROUTERS /\ pc = "Booted") => bootAt <= upAt + 660000
\* and never before a contact answered
NoSuccessBeforeAnswer == pc = "Booted" => upAt # -1 /\ bootAt > upAt
=============================================================================
