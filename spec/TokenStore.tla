----------------------------- MODULE TokenStore -----------------------------
(***************************************************************************)
(* Announce-token store of a btdht node (src/token.rs) -- property C06.    *)
(*                                                                         *)
(* Style used by every component module of this specification:             *)
(*   * the MECHANISM is a set of pure step operators on a state record     *)
(*     (`TS_Checkout(s, now, ...)` returns the new state and the output),  *)
(*     one per critical section of the code, so that the model checker     *)
(*     (mc/MC_Token.tla), the trace validator (trace/TokenTrace.tla) and   *)
(*     the node-level specification (Server.tla) share ONE definition;     *)
(*   * the PROPERTY is stated separately as a monitor over a history of    *)
(*     observable events (tokens handed out, verdicts given), never over   *)
(*     the mechanism's own variables, so MC checks mechanism against       *)
(*     statement and the trace validator can judge an execution of the     *)
(*     real code by the statement alone.                                   *)
(*                                                                         *)
(* Time is in milliseconds.  The implementation truncates the elapsed time *)
(* to whole seconds before dividing by the rotation interval               *)
(* (`diff_time.as_secs() / REFRESH_INTERVAL.as_secs()`); so do we.         *)
(***************************************************************************)
EXTENDS Integers, Sequences, FiniteSets

CONSTANTS ROT         \* rotation interval in ms (code: 10 min = 600000)

TEN_MIN    == 600000
THIRTY_MIN == 1800000

(***************************************************************************)
(* Mechanism.  State record [cur, prev, last]: current and previous secret *)
(* (only their identity matters) and the time of the last rotation.        *)
(***************************************************************************)
TS_Init(sec0, sec1, now) == [cur |-> sec0, prev |-> sec1, last |-> now]

TS_Intervals(s, now) == ((now - s.last) \div 1000) \div (ROT \div 1000)

\* refresh_check(): f1, f2 are the fresh secrets drawn if a rotation happens
TS_Refresh(s, now, f1, f2) ==
    LET k == TS_Intervals(s, now) IN
    IF k = 0 THEN s
    ELSE IF k = 1 THEN [cur |-> f1, prev |-> s.cur, last |-> now]
    ELSE [cur |-> f1, prev |-> f2, last |-> now]

\* how many fresh secrets refresh_check() draws
TS_Draws(s, now) == LET k == TS_Intervals(s, now) IN IF k = 0 THEN 0 ELSE IF k = 1 THEN 1 ELSE 2

\* checkout(ip): the token is a function Tok(ip, secret) supplied by the user of the module
TS_Checkout(s, now, f1, f2) == TS_Refresh(s, now, f1, f2)
TS_TokenSecret(s) == s.cur

\* checkin(ip, token): valid iff derived from ip and one of the two secrets
TS_ValidSecrets(s) == {s.cur, s.prev}

(***************************************************************************)
(* Property monitor (C06).  History = set of [ip, tok, at]: token `tok`    *)
(* was handed out to `ip` at time `at`.  `tok` is opaque (bytes in traces, *)
(* <<ip, secret>> in the model).                                           *)
(***************************************************************************)
H_Issue(h, ip, tok, now) == h \cup {[ip |-> ip, tok |-> tok, at |-> now]}

\* a token this ip was handed at most 10 minutes ago MUST be accepted
MustAccept(h, ip, tok, now) ==
    \E r \in h : r.ip = ip /\ r.tok = tok /\ now - r.at <= TEN_MIN

\* a token may only be accepted if this ip was handed it less than 30 minutes ago
MayAccept(h, ip, tok, now) ==
    \E r \in h : r.ip = ip /\ r.tok = tok /\ now - r.at < THIRTY_MIN

\* the verdict `v` on (ip, tok) at `now` is consistent with the statement of C06
VerdictOK(h, ip, tok, now, v) ==
    /\ MustAccept(h, ip, tok, now) => v
    /\ v => MayAccept(h, ip, tok, now)

\* drop history entries that can no longer influence any verdict (keeps states small)
H_Prune(h, now) == {r \in h : now - r.at < THIRTY_MIN}
=============================================================================
