------------------------------- MODULE Handler -------------------------------
(***************************************************************************)
(* The event loop of a node (DhtHandler::run_once) at the level of its     *)
(* timers, the table-refresh chain, bootstrap notifications and the queue  *)
(* of early searches -- mechanism for C15 (waiters), C16 (early searches)  *)
(* and C18 (one refresh cadence).                                          *)
(*                                                                         *)
(* The bootstrap worker is abstracted to its published state, which the    *)
(* environment may flip between Bootstrapped and not (a node with fewer    *)
(* than 10 good nodes re-bootstraps every 5 s); the handler reacts to each *)
(* change to Bootstrapped with handle_bootstrap_success.                   *)
(*                                                                         *)
(* Two policy constants select between the pinned tree and the repaired    *)
(* code, so that MC shows the defect of the former and its absence in the  *)
(* latter:                                                                 *)
(*   CancelPending  -- continue_refresh cancels the pending refresh timer  *)
(*   QueueEarly     -- searches before the initial bootstrap are queued    *)
(***************************************************************************)
EXTENDS Integers, Sequences, FiniteSets

CONSTANTS CancelPending, QueueEarly, REFRESH_MS

VARIABLES now,        \* ms
          timers,     \* set of [deadline, id]: pending TableRefresh timers (the Timer's BTreeMap)
          nextId,
          pending,    \* id of the refresh timer remembered by TableRefresh (or -1)
          boot,       \* published bootstrap state: TRUE = Bootstrapped
          initial,    \* initial_bootstrap_done
          queued,     \* early searches waiting (sequence of search ids)
          started,    \* searches handed to TableLookup::new, with the time
          waiters,    \* registered bootstrapped() callers not yet told
          told,       \* callers that were told
          rounds,     \* history: times of refresh rounds
          succ        \* history: times of bootstrap completions
vars == <<now, timers, nextId, pending, boot, initial, queued, started, waiters, told, rounds, succ>>

Init == /\ now = 0 /\ timers = {} /\ nextId = 0 /\ pending = -1 /\ boot = FALSE /\ initial = FALSE
        /\ queued = <<>> /\ started = {} /\ waiters = {} /\ told = {} /\ rounds = <<>> /\ succ = <<>>

\* TableRefresh::continue_refresh: one round, then arm the next timer
ContinueRefresh(tms, pend) ==
    LET tms1 == IF CancelPending /\ pend # -1 THEN {t \in tms : t.id # pend} ELSE tms IN
    [timers |-> tms1 \cup {[deadline |-> now + REFRESH_MS, id |-> nextId]}, pending |-> nextId]

\* the refresh timer with the earliest deadline fires
TimerFires ==
    /\ timers # {}
    /\ LET t == CHOOSE x \in timers : \A y \in timers : x.deadline < y.deadline \/ (x.deadline = y.deadline /\ x.id <= y.id) IN
       /\ t.deadline >= now
       /\ now' = t.deadline
       /\ LET r == [timers |-> (timers \ {t}) \cup {[deadline |-> t.deadline + REFRESH_MS, id |-> nextId]}, pending |-> nextId]
              \* (continue_refresh evaluated at the new time; cancelling the timer that has just fired is a no-op)
              r2 == IF CancelPending /\ pending # -1 /\ pending # t.id
                    THEN [r EXCEPT !.timers = {x \in r.timers : x.id # pending}] ELSE r IN
          /\ timers' = r2.timers /\ pending' = r2.pending
       /\ nextId' = nextId + 1
       /\ rounds' = Append(rounds, t.deadline)
    /\ UNCHANGED <<boot, initial, queued, started, waiters, told, succ>>

\* the bootstrap worker publishes Bootstrapped: handle_bootstrap_success
BootSucceeds ==
    /\ ~boot /\ boot' = TRUE
    /\ told' = told \cup waiters /\ waiters' = {}
    /\ LET r == ContinueRefresh(timers, pending) IN timers' = r.timers /\ pending' = r.pending
    /\ nextId' = nextId + 1
    /\ rounds' = Append(rounds, now) /\ succ' = Append(succ, now)
    /\ initial' = TRUE
    /\ started' = started \cup {[sid |-> queued[i], at |-> now] : i \in 1..Len(queued)}
    /\ queued' = <<>>
    /\ UNCHANGED now

\* the node falls below 10 good nodes / loses the network: the worker leaves Bootstrapped
BootLost == boot /\ boot' = FALSE /\ UNCHANGED <<now, timers, nextId, pending, initial, queued, started, waiters, told, rounds, succ>>

CheckBootstrap(w) ==
    /\ w \notin waiters \cup told
    /\ IF boot THEN told' = told \cup {w} /\ UNCHANGED waiters ELSE waiters' = waiters \cup {w} /\ UNCHANGED told
    /\ UNCHANGED <<now, timers, nextId, pending, boot, initial, queued, started, rounds, succ>>

StartLookup(s) ==
    /\ s \notin {x.sid : x \in started} /\ \A i \in 1..Len(queued) : queued[i] # s
    /\ IF QueueEarly /\ ~initial THEN queued' = Append(queued, s) /\ UNCHANGED started
       ELSE started' = started \cup {[sid |-> s, at |-> now]} /\ UNCHANGED queued
    /\ UNCHANGED <<now, timers, nextId, pending, boot, initial, waiters, told, rounds, succ>>

Tick(d) == now' = now + d /\ (timers = {} \/ \A t \in timers : t.deadline >= now + d)
           /\ UNCHANGED <<timers, nextId, pending, boot, initial, queued, started, waiters, told, rounds, succ>>

(***************************************************************************)
(* Properties                                                              *)
(***************************************************************************)
\* C18: one refresh chain, whatever the number of re-bootstraps
AtMostOneRefreshTimer == Cardinality(timers) <= 1
CountIn(seq, lo, hi) == Cardinality({i \in 1..Len(seq) : seq[i] > lo /\ seq[i] <= hi})
RoundsBounded == \A W \in {REFRESH_MS * 2, REFRESH_MS * 5} :
    CountIn(rounds, now - W, now) <= (W \div REFRESH_MS) + 1 + CountIn(succ, now - W - 1, now)
\* C16: a search is never started on the empty table of a node that has not bootstrapped yet, and none is forgotten
NoLookupBeforeInitialBootstrap == \A x \in started : succ # <<>> /\ x.at >= succ[1]
QueuedAreStarted == initial => queued = <<>>
\* C15: whoever waits is told at the next completion
WaitersToldOnSuccess == boot => waiters = {}
=============================================================================
