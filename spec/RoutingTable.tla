---------------------------- MODULE RoutingTable ----------------------------
(***************************************************************************)
(* Contacts, buckets and the routing table of a btdht node                 *)
(* (src/node.rs, src/bucket.rs, src/table.rs) -- mechanism for C08 C09 C10 *)
(* and for every node-level module.                                        *)
(*                                                                         *)
(* Written like the implementation: a bucket is exactly K slots in slot    *)
(* order, a free slot is the code's placeholder contact (never answered,   *)
(* hence Bad), the table is a sequence of buckets of which only the last   *)
(* may be split, and the closest-node walk alternates right/left of the    *)
(* target's bucket handing out last-bucket ("assorted") nodes at their     *)
(* ideal index.  All operators are pure functions of a table record        *)
(*    [self, buckets, routers]                                             *)
(* and the current time `now` (ms), so that the model checker, the trace   *)
(* validator and the node-level specification share one definition.        *)
(*                                                                         *)
(* Ids are abstract: LCP(a, b) = number of equal leading bits, MAXB = id   *)
(* length in bits (160 in the code, 4 in the small model).                 *)
(***************************************************************************)
EXTENDS Integers, Sequences, FiniteSets

CONSTANTS K,              \* bucket size (8)
          MAXB,           \* number of id bits = max number of buckets (160)
          LCP(_, _),      \* common-prefix length of two ids, MAXB when equal
          ZeroId,         \* the id of the placeholder contact (all zero)
          PlaceholderAddr,\* its address (127.0.0.1:0)
          LowestFirst     \* TRUE: replace a slot of the LOWEST status (repaired code);
                          \* FALSE: the FIRST slot of lower status (pinned tree, defect C08)

NONE    == -2000000000    \* "never" for time stamps
FIFTEEN == 900000         \* 15 min
RECENT  == 30000          \* recently_requested_from
BAD == 0  QUEST == 1  GOOD == 2
MAXREFRESH == 2

Min2(a, b) == IF a < b THEN a ELSE b
SetMin(S) == CHOOSE x \in S : \A y \in S : x <= y

(***************************************************************************)
(* Contact (src/node.rs)                                                   *)
(***************************************************************************)
Placeholder == [id |-> ZeroId, addr |-> PlaceholderAddr, rsp |-> NONE, req |-> NONE, loc |-> NONE, cnt |-> 0]
AsGood(id, addr, now)  == [id |-> id, addr |-> addr, rsp |-> now, req |-> NONE, loc |-> NONE, cnt |-> 0]
AsQuest(id, addr, now) == [id |-> id, addr |-> addr, rsp |-> now - FIFTEEN, req |-> NONE, loc |-> NONE, cnt |-> 0]

\* Node::status -- the order of the tests matters
Status(c, now) ==
    IF c.rsp = NONE THEN BAD
    ELSE IF now - c.rsp < FIFTEEN THEN GOOD
    ELSE IF c.cnt >= MAXREFRESH THEN BAD
    ELSE IF c.req # NONE /\ now - c.req < FIFTEEN THEN GOOD
    ELSE QUEST

Live(c, now) == Status(c, now) # BAD
SameHandle(a, b) == a.id = b.id /\ a.addr = b.addr
Handle(c) == [id |-> c.id, addr |-> c.addr]

\* Node::update(self = a, other = b)
Update(a, b, now) ==
    LET sa == Status(a, now)  sb == Status(b, now) IN
    IF sa = GOOD /\ sb = GOOD THEN [a EXCEPT !.rsp = b.rsp, !.cnt = 0]
    ELSE IF sa = QUEST /\ sb = GOOD THEN b
    ELSE IF sa = BAD /\ sb # BAD THEN b
    ELSE a

LocalRequest(c, now) ==
    LET c1 == [c EXCEPT !.loc = now] IN
    IF Status(c1, now) # GOOD THEN [c1 EXCEPT !.cnt = c.cnt + 1] ELSE c1
RemoteRequest(c, now) == [c EXCEPT !.req = now]
RecentlyRequested(c, now) == c.loc # NONE /\ now < c.loc + RECENT

(***************************************************************************)
(* Bucket (src/bucket.rs)                                                  *)
(***************************************************************************)
EmptyBucket == [i \in 1..K |-> Placeholder]

\* Bucket::add_node -> [ok, b]
BucketAdd(b, c, now) ==
    LET st == Status(c, now) IN
    IF st = BAD THEN [ok |-> TRUE, b |-> b]
    ELSE LET dup == {i \in 1..K : SameHandle(b[i], c)} IN
         IF dup # {} THEN LET i == SetMin(dup) IN [ok |-> TRUE, b |-> [b EXCEPT ![i] = Update(b[i], c, now)]]
         ELSE LET lower == {i \in 1..K : Status(b[i], now) < st} IN
              IF lower = {} THEN [ok |-> FALSE, b |-> b]
              ELSE LET i == IF LowestFirst
                            THEN LET m == SetMin({Status(b[j], now) : j \in lower}) IN
                                 SetMin({j \in lower : Status(b[j], now) = m})
                            ELSE SetMin(lower) IN
                   [ok |-> TRUE, b |-> [b EXCEPT ![i] = c]]

(***************************************************************************)
(* Table (src/table.rs)                                                    *)
(***************************************************************************)
TableInit(self) == [self |-> self, buckets |-> <<EmptyBucket>>, routers |-> {}]
NB(t) == Len(t.buckets)
BucketIndex(t, id) == Min2(LCP(t.self, id), NB(t) - 1)        \* 0-based

RECURSIVE TAdd(_, _, _), TBucketNode(_, _, _, _), TReAdd(_, _, _, _)
\* RoutingTable::add_node
TAdd(t, c, now) ==
    IF c.addr \in t.routers \/ Status(c, now) = BAD THEN t
    ELSE LET l == LCP(t.self, c.id) IN
         IF l = MAXB THEN t ELSE TBucketNode(t, c, l, now)
\* RoutingTable::bucket_node (+ split_bucket)
TBucketNode(t, c, l, now) ==
    LET nb == NB(t)
        idx == Min2(l, nb - 1)
        r == BucketAdd(t.buckets[idx + 1], c, now) IN
    IF r.ok THEN [t EXCEPT !.buckets[idx + 1] = r.b]
    ELSE IF idx = nb - 1 /\ idx # MAXB - 1
         THEN LET old == t.buckets[nb]
                  t1 == [t EXCEPT !.buckets = SubSeq(t.buckets, 1, nb - 1) \o <<EmptyBucket, EmptyBucket>>]
                  t2 == TReAdd(t1, old, 1, now) IN
              TBucketNode(t2, c, l, now)
         ELSE t
TReAdd(t, old, i, now) == IF i > K THEN t ELSE TReAdd(TAdd(t, old[i], now), old, i + 1, now)

\* RoutingTable::add_nodes(responder, hearsay list)
RECURSIVE TAddQuest(_, _, _, _)
TAddQuest(t, hs, i, now) ==
    IF i > Len(hs) THEN t ELSE TAddQuest(TAdd(t, AsQuest(hs[i].id, hs[i].addr, now), now), hs, i + 1, now)
TAddNodes(t, id, addr, hs, now) == TAddQuest(TAdd(t, AsGood(id, addr, now), now), hs, 1, now)

\* find_node_mut: the first pingable slot with that handle in the bucket the id maps to
FindSlot(t, h, now) ==
    LET b == t.buckets[BucketIndex(t, h.id) + 1]
        S == {i \in 1..K : Live(b[i], now) /\ b[i].id = h.id /\ b[i].addr = h.addr} IN
    IF S = {} THEN 0 ELSE SetMin(S)
Known(t, h, now) == FindSlot(t, h, now) # 0
TMarkLocal(t, h, now) ==
    LET bi == BucketIndex(t, h.id) + 1  i == FindSlot(t, h, now) IN
    IF i = 0 THEN t ELSE [t EXCEPT !.buckets[bi][i] = LocalRequest(t.buckets[bi][i], now)]
TMarkRemote(t, h, now) ==
    LET bi == BucketIndex(t, h.id) + 1  i == FindSlot(t, h, now) IN
    IF i = 0 THEN t ELSE [t EXCEPT !.buckets[bi][i] = RemoteRequest(t.buckets[bi][i], now)]

\* all live contacts, and reported sets
AllSlots(t) == {<<bi, i>> : bi \in 1..NB(t), i \in 1..K}
LiveSlots(t, now) == {p \in AllSlots(t) : Live(t.buckets[p[1]][p[2]], now)}
LiveHandles(t, now) == {Handle(t.buckets[p[1]][p[2]]) : p \in LiveSlots(t, now)}
GoodAddrs(t, now)  == {t.buckets[p[1]][p[2]].addr : p \in {q \in AllSlots(t) : Status(t.buckets[q[1]][q[2]], now) = GOOD}}
QuestAddrs(t, now) == {t.buckets[p[1]][p[2]].addr : p \in {q \in AllSlots(t) : Status(t.buckets[q[1]][q[2]], now) = QUEST}}
NumGood(t, now)  == Cardinality({q \in AllSlots(t) : Status(t.buckets[q[1]][q[2]], now) = GOOD})
NumQuest(t, now) == Cardinality({q \in AllSlots(t) : Status(t.buckets[q[1]][q[2]], now) = QUEST})

(***************************************************************************)
(* ClosestNodes (src/table.rs): the order in which live contacts are       *)
(* enumerated for a target.                                                *)
(***************************************************************************)
\* visit order of bucket indices: start, start+1, start-1, start+2, ... within 0..MAXB-1
RECURSIVE VisitFrom(_, _, _)
VisitFrom(start, k, acc) ==
    IF start + k > MAXB - 1 /\ start - k < 0 THEN acc
    ELSE VisitFrom(start, k + 1,
                   acc \o (IF start + k <= MAXB - 1 THEN <<start + k>> ELSE <<>>)
                       \o (IF start - k >= 0 /\ start - k <= MAXB - 1 THEN <<start - k>> ELSE <<>>))
VisitOrder(start) == VisitFrom(start, 1, IF start <= MAXB - 1 THEN <<start>> ELSE <<>>)

LiveOf(b, now) == SelectSeq(b, LAMBDA c : Live(c, now))

\* contacts handed out at virtual index i; asIdx[j] = ideal index of slot j of the last bucket
AtIndex(t, i, now, asIdx) ==
    LET nb == NB(t)
        nsorted == IF nb = MAXB THEN nb ELSE nb - 1
        sorted == IF i + 1 <= nsorted THEN LiveOf(t.buckets[i + 1], now) ELSE <<>>
        last == t.buckets[nb]
        pick == IF nb = MAXB THEN <<>> ELSE SelectSeq([j \in 1..K |-> j], LAMBDA j : asIdx[j] = i /\ Live(last[j], now)) IN
    sorted \o [x \in 1..Len(pick) |-> last[pick[x]]]

RECURSIVE ClosestAcc(_, _, _, _, _, _)
ClosestAcc(t, order, j, now, asIdx, acc) ==
    IF j > Len(order) THEN acc
    ELSE ClosestAcc(t, order, j + 1, now, asIdx, acc \o AtIndex(t, order[j], now, asIdx))
\* the visit orders depend on nothing but MAXB: evaluated once
VisitOrders == [s \in 0..MAXB |-> VisitOrder(s)]
Closest(t, target, now) ==
    LET nb == NB(t)
        last == t.buckets[nb]
        asIdx == [j \in 1..K |-> LCP(t.self, last[j].id)]
        \* only indices that can hold a contact need to be visited: the sorted buckets and the
        \* ideal indices of the last bucket's slots (all other indices contribute nothing)
        relevant == (0..(nb - 1)) \cup {asIdx[j] : j \in 1..K}
        order == SelectSeq(VisitOrders[LCP(t.self, target)], LAMBDA i : i \in relevant) IN
    ClosestAcc(t, order, 1, now, asIdx, <<>>)

RECURSIVE TakeN(_, _)
TakeN(s, n) == IF Len(s) <= n THEN s ELSE SubSeq(s, 1, n)
FilterFam(s, fam(_)) == SelectSeq(s, LAMBDA c : fam(c.addr))
=============================================================================
