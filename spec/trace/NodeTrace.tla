------------------------------ MODULE NodeTrace ------------------------------
(***************************************************************************)
(* Trace specification for whole nodes (real MainlineDht instances on the  *)
(* simulated network, harness `vh node`).  One line = one observable step  *)
(* of the single-threaded execution:                                       *)
(*   Recv / Send (datagrams, described by the harness' own bencode reader),*)
(*   HStep / HEnd (begin/end of one handler step, with the table diff),    *)
(*   SockRecv (datagram routed to a bootstrap exchange / undecodable),     *)
(*   BootState / BootMsg / BootSent (bootstrap worker), BootSuccess,       *)
(*   LookupQueued / LookupStart / Endgame / LookupDone, RefreshRound,      *)
(*   Api* (public API calls and their results), Yield / Closed (search     *)
(*   streams), PeerSend (scripted remote parties), Universe / Plan / End.  *)
(*                                                                         *)
(* The specification keeps, per node, the OBSERVED state (table as dumped, *)
(* histories of tokens handed out / announces acknowledged / searches /    *)
(* queries outstanding) and evaluates on every step the statements of the  *)
(* node-level properties, each constraint tagged with the property whose   *)
(* statement it encodes (Chk).  The component statements are the same      *)
(* operators that MC checks against the mechanism: TokenStore!VerdictOK,   *)
(* PeerStore!FindOK/AddOK, TableProps!ShapeOK/ReplyOK.                      *)
(***************************************************************************)
EXTENDS TraceLib, FiniteSets, Ids160

K == 8
MAXB == 160
ZeroId == Zero160
PlaceholderAddr == [fam |-> 4, ip |-> "127.0.0.1", port |-> 0]
LowestFirst == TRUE
ObsStatus(c, n) == c.st
INSTANCE TableProps WITH LCP <- LCP160, RStatus <- ObsStatus
TS == INSTANCE TokenStore WITH ROT <- 600000
PS == INSTANCE PeerStore WITH CAP <- 500, TTL <- 86400000
\* the bootstrap worker's timing model; only its constant-level operators (Backoff) are used here
BS == INSTANCE Bootstrap WITH CAP <- 9, NCONTACTS <- 0, ROUTERS <- FALSE, GOODFOUND <- 0, BUCKET_MS <- 0, MAXATTEMPTS <- 0,
                              now <- 0, pc <- "", attempt <- 0, upAt <- 0, bootAt <- 0, tries <- 0
LC == INSTANCE LookupCore WITH Closer <- Closer160, ALPHA <- 4, BETA <- 3, ANN <- 8, MAXC <- 8

VARIABLES l, S, G
vars == <<l, S, G>>
\* the virtual time of the event being consumed
now == IF l <= NRec THEN Rec[l].t ELSE 0

SLACK == 50            \* ms: timer-wheel rounding and same-instant scheduling
NoMsg == [y |-> "none"]
EmptyT == [self |-> Zero160, routers |-> {}, buckets |-> <<[i \in 1..K |-> Placeholder @@ [st |-> BAD]]>>]

NodeInit(e) ==
    [id |-> Zero160, ro |-> e.read_only, aport |-> e.announce_port, fam |-> e.node.fam,
     contacts |-> {e.nodes[i] : i \in 1..Len(e.nodes)} \cup {e.routers[i] : i \in 1..Len(e.routers)},
     plain |-> Len(e.routers) = 0,
     t |-> [EmptyT EXCEPT !.routers = {e.routers[i] : i \in 1..Len(e.routers)}],
     pend |-> NoMsg, psrc |-> PlaceholderAddr,
     step |-> [open |-> FALSE],
     issued |-> {}, acked |-> <<>>, refused |-> {},
     usedpfx |-> {}, heard |-> <<>>, sentpairs |-> {},
     lk |-> <<>>, pendSearch |-> <<>>, sidAid |-> <<>>, closed |-> <<>>, yields |-> <<>>, started |-> <<>>,
     rounds |-> <<>>, succ |-> <<>>,
     answered |-> FALSE, waits |-> <<>>, qsent |-> 0, started_at |-> now, bootstate |-> "AwaitStart",
     annClosed |-> <<>>, lastSentTo |-> <<>>, samples |-> <<>>, lastAns |-> <<>>, lastNamed |-> <<>>, qsince |-> <<>>, admitted |-> {}, mechn |-> 0, raid |-> "", cursor |-> -1, bphase |-> [b |-> -1, list |-> <<>>, i |-> 0], bootn |-> 0, battempt |-> 0, bsince |-> 0, binit |-> <<>>, bacc |-> 0, bcomp |-> <<>>, bcredit |-> 0]

Init == l = 1 /\ S = <<>> /\ G = [universe |-> <<>>, plan |-> <<>>, coop |-> FALSE, proj |-> FALSE, twins |-> <<>>, responsive |-> <<>>, searching |-> <<>>]

Nd(e) == S[e.node]
Upd(e, r) == S' = [S EXCEPT ![e.node] = r]
FSet(f, k, v) == [x \in DOMAIN f \cup {k} |-> IF x = k THEN v ELSE f[x]]
FGet(f, k, d) == IF k \in DOMAIN f THEN f[k] ELSE d

\* traces recorded in projection mode (C01: many virtual hours) carry no table dumps: the mechanism predictions are off there
MDrift(name, ln, cond) == IF G.proj THEN TRUE ELSE Drift(name, ln, cond)
PlanFor(n) == FGet(G.plan, n, <<>>)
\* When searches run, a contact can be asked by a search while its answer to a refresh request is still under way; the code counts
\* requests when they are SENT, so such a contact is momentarily classified bad until the answer arrives (less than one round trip).
\* The statement of C11 is about contacts that are lost, not about this sub-second re-validation window: in runs with searches a
\* missing contact is excused while a request sent to it within the last GRACE ms is still unanswered.  Runs without searches have no
\* such window and are checked exactly.
GRACE == 2000
Excused(nd, a) == FGet(G.searching, Rec[l].node, FALSE) /\ a \in DOMAIN nd.lastSentTo /\ now - nd.lastSentTo[a] <= GRACE

\* ------------------------------------------------------------------ reading dumps (as TableTrace)
SlotOf(x) == IF "e" \in DOMAIN x THEN Placeholder @@ [st |-> BAD]
             ELSE [id |-> x.id, addr |-> x.addr, rsp |-> x.rsp, req |-> x.req, loc |-> x.loc, cnt |-> x.cnt, st |-> x.st]
ApplyDiff(tt, ch) ==
    LET nb == ch[1]
        listed == {ch[2][j][1] : j \in 1..Len(ch[2])}
        get(b) == (CHOOSE j \in 1..Len(ch[2]) : ch[2][j][1] = b) IN
    [tt EXCEPT !.buckets = [b \in 1..nb |->
        IF b \in listed THEN [i \in 1..K |-> SlotOf(ch[2][get(b)][2][i])]
        ELSE tt.buckets[b]]]

\* ------------------------------------------------------------------ message classification
Methods == {"ping", "find_node", "get_peers", "announce_peer"}
IsQuery(m) == m.y = "q"
\* a query that every conforming node must answer (BEP5 argument sets, ids of 20 bytes, nothing trailing)
WellFormedQuery(m) ==
    /\ m.y = "q" /\ m.trailing = 0 /\ m.tl >= 0 /\ Has(m, "q") /\ m.q \in Methods /\ Has(m, "a")
    /\ m.a.idl = 20 /\ m.a.want # "bad"
    /\ (m.q = "find_node" => m.a.targetl = 20)
    /\ (m.q = "get_peers" => m.a.ihl = 20)
    /\ (m.q = "announce_peer" => m.a.ihl = 20 /\ m.a.tokenl >= 0 /\ m.a.port >= 0 /\ m.a.port <= 65535)
\* datagrams that are certainly not queries to be answered
NotAQuery(m) == m.y \in {"r", "e", "?"} \/ (m.y = "q" /\ Has(m, "q") /\ m.q \notin Methods)
IsReply(m) == m.y \in {"r", "e"}
SameFam(a, fam) == a.fam = fam
Handles(nodes) == [i \in 1..Len(nodes) |-> [id |-> nodes[i].id, addr |-> nodes[i].addr]]

\* ------------------------------------------------------------------ C05 / C06 / C07 / C09: the reply to one query
WantFams(nd, m) == IF m.a.want = "n4" THEN {4} ELSE IF m.a.want = "n6" THEN {6} ELSE IF m.a.want = "both" THEN {4, 6} ELSE {nd.fam}
NodeListsOK(nd, m, target, r) ==
    LET fams == WantFams(nd, m) IN
    /\ (4 \notin fams => Len(r.nodes) = 0) /\ (6 \notin fams => Len(r.nodes6) = 0)
    /\ (4 \in fams => ReplyOK(nd.t, target, now, Handles(r.nodes), LAMBDA a : a.fam = 4))
    /\ (6 \in fams => ReplyOK(nd.t, target, now, Handles(r.nodes6), LAMBDA a : a.fam = 6))

\* the mechanism's prediction of a node list (RoutingTable!Closest on the observed table): compared as DRIFT only
PredNodes(nd, target, fam) ==
    LET cl == SelectSeq(Closest([nd.t EXCEPT !.self = nd.id], target, now), LAMBDA c : c.addr.fam = fam) IN
    [i \in 1..Min2(8, Len(cl)) |-> [id |-> cl[i].id, addr |-> cl[i].addr]]
NodeListsExact(nd, m, target, r) ==
    LET fams == WantFams(nd, m) IN
    /\ (4 \in fams => Handles(r.nodes) = PredNodes(nd, target, 4))
    /\ (6 \in fams => Handles(r.nodes6) = PredNodes(nd, target, 6))

ValuesOK(nd, ih, src, vals) ==
    LET got == {vals[i] : i \in 1..Len(vals)}
        live == {p \in PS!LiveStrict(nd.acked, now) : p[1] = ih /\ p[2].fam = src.fam}
        loose == {p \in PS!LiveLoose(nd.acked, now) : p[1] = ih /\ p[2].fam = src.fam} IN
    /\ Len(vals) = Cardinality(got)
    /\ \A p \in live : p[2] \in got
    /\ \A a \in got : <<ih, a>> \in loose

Contact(m, src) == IF m.a.implied THEN src ELSE [src EXCEPT !.port = m.a.port]

\* rep: the description of the single reply datagram
ReplyChecks(nd, m, src, rep, ln) ==
    /\ Chk("C05", "reply-echoes-transaction-id", ln, rep.m.t = m.t /\ rep.m.tl = m.tl)
    /\ Chk("C05", "reply-goes-to-the-source", ln, rep.dst = src)
    /\ Chk("C05", "reply-is-response-or-error", ln, rep.m.y \in {"r", "e"})
    /\ IF rep.m.y = "r"
       THEN /\ Chk("C05", "reply-carries-own-id", ln, Has(rep.m, "r") /\ rep.m.r.idl = 20 /\ rep.m.r.id = nd.id)
            /\ (m.q \in {"ping", "find_node", "announce_peer"} =>
                    Chk("C05", "no-token-no-values-outside-get_peers", ln, rep.m.r.tokenl = -1 /\ rep.m.r.nvalues = 0))
            /\ (m.q = "find_node" => MDrift("find_node-node-list-order", ln, NodeListsExact(nd, m, m.a.target, rep.m.r)))
            /\ (m.q = "get_peers" => MDrift("get_peers-node-list-order", ln, NodeListsExact(nd, m, m.a.info_hash, rep.m.r)))
            /\ (m.q = "find_node" => Chk("C09", "find_node-node-list", ln, NodeListsOK(nd, m, m.a.target, rep.m.r))
                                     /\ Chk("C05", "find_node-families", ln, (4 \notin WantFams(nd, m) => Len(rep.m.r.nodes) = 0) /\ (6 \notin WantFams(nd, m) => Len(rep.m.r.nodes6) = 0)))
            /\ (m.q = "get_peers" =>
                    /\ Chk("C05", "get_peers-token-20-bytes", ln, rep.m.r.tokenl = 20)
                    /\ Chk("C09", "get_peers-node-list", ln, NodeListsOK(nd, m, m.a.info_hash, rep.m.r))
                    /\ Chk("C05", "get_peers-families", ln, (4 \notin WantFams(nd, m) => Len(rep.m.r.nodes) = 0) /\ (6 \notin WantFams(nd, m) => Len(rep.m.r.nodes6) = 0))
                    /\ Chk("C05", "values-of-requester-family", ln, \A i \in 1..Len(rep.m.r.values) : rep.m.r.values[i].fam = src.fam)
                    /\ Chk("C06", "a-refused-announce-stores-nothing", ln,
                           \A i \in 1..Len(rep.m.r.values) : <<m.a.ih, rep.m.r.values[i]>> \notin (nd.refused \ DOMAIN nd.acked))
                    /\ Chk("C07", "values-are-exactly-the-live-announced-peers", ln, ValuesOK(nd, m.a.ih, src, rep.m.r.values)))
       ELSE Chk("C05", "errors-only-to-announce_peer-203-or-202", ln,
                m.q = "announce_peer" /\ Has(rep.m, "e") /\ rep.m.e.code \in {202, 203})

\* effect of an answered query on the histories: [issued, acked]
AnnounceVerdict(nd, m, src, rep, ln) ==
    LET tokok == ~(rep.m.y = "e" /\ rep.m.e.code = 203)
        stored == rep.m.y = "r"
        c == Contact(m, src) IN
    /\ Chk("C06", "token-verdict-consistent-with-history", ln, TS!VerdictOK(nd.issued, src.ip, m.a.token, now, tokok))
    /\ Chk("C06", "wrong-length-token-refused", ln, m.a.tokenl # 20 => ~tokok)
    /\ (tokok => Chk("C07", "announce-verdict-consistent-with-history", ln, PS!AddOK(nd.acked, m.a.ih, c, now, stored)))
    /\ (tokok /\ ~stored => Chk("C05", "full-store-refused-with-202", ln, rep.m.e.code = 202))
    /\ (tokok /\ ~stored => Chk("C05", "refused-with-202-only-when-the-store-is-full", ln, PS!AddOK(nd.acked, m.a.ih, c, now, FALSE)))

Effects(nd, m, src, rep) ==
    IF m.q = "get_peers" /\ rep.m.y = "r" /\ rep.m.r.tokenl >= 0
    THEN [nd EXCEPT !.issued = TS!H_Issue(TS!H_Prune(nd.issued, now), src.ip, rep.m.r.token, now)]
    ELSE IF m.q = "announce_peer" /\ rep.m.y = "r"
    THEN [nd EXCEPT !.acked = PS!A_Ack(PS!A_Prune(nd.acked, now), m.a.ih, Contact(m, src), now)]
    ELSE IF m.q = "announce_peer" /\ rep.m.y = "e"
    THEN [nd EXCEPT !.refused = @ \cup {<<m.a.ih, Contact(m, src)>>}]
    ELSE nd

\* ------------------------------------------------------------------ C17
Oversize(m) == m.len > 1500
\* the recorded finding: a get_peers reply that is too long only because of its `values`
KnownOversize(m) == m.y = "r" /\ Has(m, "r") /\ m.r.nvalues > 0 /\ m.len - m.r.vlen <= 1500
\* ... and whose values are legitimate: the peers the store is entitled to return (C07's statement).  A reply that is too long
\* because it carries peers that should not be there any more is a different failure and is reported.
LegitValues(nd, m) ==
    (nd.step.open /\ nd.step.kind = "incoming" /\ nd.step.m.y = "q" /\ Has(nd.step.m, "q") /\ nd.step.m.q = "get_peers"
     /\ Has(nd.step.m, "a") /\ nd.step.m.a.ihl = 20)
        => ValuesOK(nd, nd.step.m.a.ih, nd.step.src, m.r.values)
FitsOK(nd, m, ln) ==
    IF ~Oversize(m) THEN TRUE
    ELSE IF KnownOversize(m) /\ LegitValues(nd, m) THEN PrintT(<<"KNOWNFINDING", "C17", "get_peers-reply-values", m.len, m.r.nvalues, ln>>)
    ELSE Chk("C17", "datagram-at-most-1500-bytes", ln, FALSE)

\* ------------------------------------------------------------------ lookups (C02 C03 C04 C16 C19)
NewLookup(e) == [target |-> e.target, announce |-> e.announce, at |-> now, q |-> <<>>, toks |-> <<>>, budget |-> <<>>,
                 nann |-> 0, anndst |-> {}, ihx |-> "?", fresh |-> TRUE, done |-> FALSE, doneAt |-> -1, eg |-> -1, consumed |-> 0, told |-> {}, sid |-> -1, failed |-> 0,
                 mech |-> [on |-> FALSE, n |-> 0, why |-> "not-started", amb |-> FALSE], fifo |-> <<>>]
BagAdd(b, xs) == LET S0 == {xs[i] : i \in 1..Len(xs)} IN
    [x \in DOMAIN b \cup S0 |-> FGet(b, x, 0) + Cardinality({i \in 1..Len(xs) : xs[i] = x})]
BagHas(b, x) == x \in DOMAIN b /\ b[x] > 0
BagDec(b, x) == [b EXCEPT ![x] = @ - 1]
BagEmpty(b) == \A x \in DOMAIN b : b[x] = 0



\* ------------------------------------------------------------------ C01: end to end
TTL_MS == 86400000
\* the contact under which node a is to be found: its IP with the configured announce port, else its UDP source port
ContactOf(a) == IF S[a].aport = -1 THEN a ELSE [a EXCEPT !.port = S[a].aport]
\* times at which node n last acknowledged an announce of <<ih, c>>
StoreTimes(ih, c) == {S[n].acked[<<ih, c>>] : n \in {x \in DOMAIN S : <<ih, c>> \in DOMAIN S[x].acked}}
SetMax(T) == CHOOSE x \in T : \A y \in T : y <= x
E2EOK(b, lk, ys) ==
    \A a \in DOMAIN S \ {b} :
        LET ends == {S[a].annClosed[i].at : i \in {j \in 1..Len(S[a].annClosed) : S[a].annClosed[j].ih = lk.ihx}}
            \* the announce datagrams are sent when the announcing search ends and travel for less than 1 s (premise of C01)
            before == {x \in ends : x + 1000 <= lk.at}
            c == ContactOf(a)
            st == StoreTimes(lk.ihx, c)
            got == c \in {ys[i] : i \in 1..Len(ys)} IN
        before # {} =>
            \* every node that acknowledged the announce still holds it (24 h after ITS last acknowledgement): it must be found;
            \* nothing was acknowledged at all although the announcing search ended: it must have been found as well
            /\ ((st = {} /\ now < SetMax(before) + TTL_MS) \/ (st # {} /\ now < SetMin(st) + TTL_MS)) => got
            \* 24 hours after the last acknowledgement anywhere it must no longer be found
            /\ (st # {} /\ lk.at > SetMax(st) + TTL_MS) => ~got

\* ------------------------------------------------------------------ C18: refresh cadence
CountIn(seq, lo, hi) == Cardinality({i \in 1..Len(seq) : seq[i] > lo /\ seq[i] <= hi})
RefreshRoundStep(e) ==
    LET nd == Nd(e)
        rounds == Append(nd.rounds, now)
        \* a bootstrap completion = the worker reaching Bootstrapped (its BootState line), not the handler's reaction to it
        ok(W) == CountIn(rounds, now - W, now) <= (W \div 6000) + 1 + CountIn(nd.bcomp, now - W - 1, now)
        prev == IF Len(nd.rounds) = 0 THEN -1000000 ELSE nd.rounds[Len(nd.rounds)]
        byBoot == nd.step.open /\ nd.step.kind = "bootstrap" IN
    /\ Chk("C18", "at-most-one-round-per-6s-plus-one-per-bootstrap-completion (30 s window)", l, ok(30000))
    /\ Chk("C18", "at-most-one-round-per-6s-plus-one-per-bootstrap-completion (2 min window)", l, ok(120000))
    /\ Chk("C18", "at-most-one-round-per-6s-plus-one-per-bootstrap-completion (20 min window)", l, ok(1200000))
    /\ Chk("C18", "a-round-is-caused-by-the-refresh-timer-or-a-bootstrap-completion", l,
           nd.step.open /\ (nd.step.kind = "bootstrap" \/ (nd.step.kind = "timer" /\ nd.step.what = "TableRefresh")))
    \* "at most once per 6-second interval plus once per bootstrap completion", round by round: a round started by the refresh timer
    \* comes no sooner than 6 s after the previous round; a round started by the bootstrap notification needs a completion of its own
    /\ Chk("C18", "a-timer-round-comes-at-least-6s-after-the-previous-round", l, byBoot \/ now - prev >= 6000 - SLACK)
    /\ Chk("C18", "a-bootstrap-round-has-a-bootstrap-completion-of-its-own", l, byBoot => nd.bcredit > 0)
    \* the mechanism: the cursor walks 0, 1, ..., 159, 0, ... one bucket per round
    /\ MDrift("refresh-cursor-advances-by-one", l, e.cursor = (nd.cursor + 1) % 160)
    /\ Upd(e, [nd EXCEPT !.rounds = rounds, !.cursor = e.cursor, !.bcredit = IF byBoot THEN 0 ELSE @,
                         !.step = IF nd.step.open THEN nd.step @@ [cursor |-> e.cursor] ELSE nd.step]) /\ UNCHANGED G

\* ------------------------------------------------------------------ C15: bootstrap and its waiters
BootWaitStep(e) ==
    Upd(e, [Nd(e) EXCEPT !.waits = FSet(@, e.wid, [at |-> now, ret |-> -1])]) /\ UNCHANGED G
BootRetStep(e) ==
    LET nd == Nd(e) IN
    /\ Chk("C15", "bootstrapped-resolves-true-while-the-node-lives", l, e.ok)
    /\ Chk("C15", "not-before-a-contact-has-answered", l, nd.contacts = {} \/ nd.answered)
    /\ Chk("C15", "no-contacts-bootstrapped-immediately", l, nd.contacts = {} => now = nd.waits[e.wid].at)
    /\ Upd(e, [nd EXCEPT !.waits[e.wid].ret = now]) /\ UNCHANGED G
\* at the end of a run: every waiter was told, within 11 minutes of a contact becoming responsive
WaitersOK(n) ==
    LET nd == S[n]
        since == FGet(G.responsive, n, -1) IN
    \* the 11-minute promise is made for configurations whose contacts are plain nodes (no routers) and at least one of which
    \* answers from `since` on
    (since >= 0 /\ nd.plain) =>
        \A w \in DOMAIN nd.waits :
            /\ nd.waits[w].ret >= 0
            /\ nd.waits[w].ret <= (IF nd.waits[w].at > since THEN nd.waits[w].at ELSE since) + 660000

\* ------------------------------------------------------------------ C11: contacts over hours
PeerSendStep(e) ==
    \* a scripted peer answers node e.dst: remember when (C11: "last answer")
    IF e.m.y = "r" /\ e.dst \in DOMAIN S
    THEN S' = [S EXCEPT ![e.dst].lastAns = FSet(@, e.src, now)] /\ UNCHANGED G
    ELSE UNCHANGED <<S, G>>
Named(nd, m) == IF nd.fam = 4 THEN m.r.nodes ELSE m.r.nodes6
ContactsSampleStep(e) ==
    LET nd == Nd(e)
        good == {e.good[i] : i \in 1..Len(e.good)}
        quest == {e.quest[i] : i \in 1..Len(e.quest)}
        listed == good \cup quest
        plan == PlanFor(e.node)
        qs2 == [a \in quest |-> FGet(nd.qsince, a, now)]
        adm2 == nd.admitted \cup listed IN
    /\ Chk("C15", "node-stays-alive", l, e.alive) /\ Chk("C14", "api-call-completes", l, e.alive)
    /\ \A i \in 1..Len(plan) :
          LET p == plan[i] IN
          IF p.mode = "Answer"
          THEN /\ Chk("C11", "a-contact-that-always-answers-is-never-lost", l, p.addr \in nd.admitted => (p.addr \in listed \/ Excused(nd, p.addr)))
               /\ Chk("C11", "a-responsive-contact-is-good-again-within-30s-of-turning-questionable", l,
                      p.addr \in quest => now - qs2[p.addr] <= 30000 + 5000)
          ELSE LET la == FGet(nd.lastAns, p.addr, -1)
                   ln == FGet(nd.lastNamed, p.addr, -1)
                   deadline == IF la + 1200000 > ln + 300000 THEN la + 1200000 ELSE ln + 300000 IN
               Chk("C11", "a-silent-contact-is-gone-20-min-after-its-last-answer-or-5-min-after-last-being-named", l,
                   (la >= 0 /\ now > deadline + 5000) => p.addr \notin listed)
    /\ Upd(e, [nd EXCEPT !.qsince = qs2, !.admitted = adm2]) /\ UNCHANGED G

\* ------------------------------------------------------------------ closest nodes of the declared universe (C02)
RECURSIVE PickClosest(_, _, _, _)
PickClosest(cands, target, k, acc) ==
    IF k = 0 \/ cands = {} THEN acc
    ELSE LET best == CHOOSE c \in cands : \A d \in cands : c = d \/ ~Closer160(target, d.id, c.id) IN
         PickClosest(cands \ {best}, target, k - 1, acc \cup {best.addr})
UniverseClosest8(target, fam) ==
    PickClosest({u \in {G.universe[i] : i \in 1..Len(G.universe)} : u.addr.fam = fam /\ u.mode = "Answer"}, target, 8, {})

SeqBag(s) == BagAdd(<<>>, s)

ApiSearchStep(e) ==
    LET nd == Nd(e) IN
    /\ Upd(e, [nd EXCEPT !.pendSearch = Append(@, [sid |-> e.sid, ih |-> e.ih, ihx |-> e.ihx, announce |-> e.announce, at |-> now]),
                         !.yields = FSet(@, e.sid, <<>>)])
    /\ UNCHANGED G

LookupQueuedStep(e) ==
    /\ Chk("C16", "searches-are-queued-only-before-the-initial-bootstrap-completed", l, Len(Nd(e).succ) = 0)
    /\ UNCHANGED <<S, G>>

LookupStartStep(e) ==
    LET nd == Nd(e)
        cand == {i \in 1..Len(nd.pendSearch) : nd.pendSearch[i].ih = e.target /\ nd.pendSearch[i].announce = e.announce}
        i == IF cand = {} THEN 0 ELSE SetMin(cand)
        sid == IF i = 0 THEN -1 ELSE nd.pendSearch[i].sid IN
    /\ Chk("C19", "live-activities-have-distinct-prefixes", l, e.aid \notin nd.usedpfx)
    /\ Chk("C16", "a-search-starts-only-after-the-initial-bootstrap", l, Len(nd.succ) > 0)
    /\ Chk("C16", "lookup-corresponds-to-a-requested-search", l, i # 0)
    /\ Upd(e, [nd EXCEPT !.lk = FSet(@, e.aid, [NewLookup(e) EXCEPT !.sid = sid, !.ihx = IF i = 0 THEN "?" ELSE nd.pendSearch[i].ihx]),
                         !.usedpfx = @ \cup {e.aid},
                         !.sidAid = IF i = 0 THEN @ ELSE FSet(@, sid, e.aid),
                         !.pendSearch = IF i = 0 THEN @ ELSE [j \in 1..(Len(@) - 1) |-> IF j < i THEN @[j] ELSE @[j + 1]]])
    /\ UNCHANGED G

Outstanding(lk) == {t \in DOMAIN lk.q : lk.q[t].ok /\ ~lk.q[t].answered /\ ~lk.q[t].timedout}

EndgameStep(e) ==
    LET nd == Nd(e)  lk == nd.lk[e.aid] IN
    /\ Chk("C04", "end-game-starts-only-when-no-query-is-outstanding", l,
           lk.failed > 0 \/ \A t \in Outstanding(lk) : now - lk.q[t].at >= 1500)
    /\ Upd(e, [nd EXCEPT !.lk[e.aid].eg = now]) /\ UNCHANGED G

LookupDoneStep(e) ==
    LET nd == Nd(e)  lk == nd.lk[e.aid]
        sent == {t \in DOMAIN lk.q : lk.q[t].ok}
        t0 == IF sent = {} THEN now ELSE SetMin({lk.q[t].at : t \in sent}) IN
    /\ Chk("C04", "no-query-younger-than-1.5s-is-outstanding-when-the-search-ends", l,
           lk.failed > 0 \/ \A t \in Outstanding(lk) : now - lk.q[t].at >= 1500)
    /\ Chk("C04", "search-ends-within-1.5s-per-node-plus-3s", l, now <= t0 + 1500 * Cardinality(lk.told) + 3000 + SLACK)
    /\ Chk("C04", "silent-network-closes-3s-after-the-first-query", l,
           (lk.consumed = 0 /\ sent # {} /\ lk.failed = 0) => (now >= t0 + 3000 /\ now <= t0 + 3000 + SLACK))
    /\ Chk("C04", "no-good-node-closes-immediately", l, (DOMAIN lk.q = {}) => now = lk.at)
    /\ Chk("C03", "announces-only-at-the-end-of-the-search", l, TRUE)
    /\ Upd(e, [nd EXCEPT !.lk[e.aid].done = TRUE, !.lk[e.aid].doneAt = now]) /\ UNCHANGED G

YieldStep(e) ==
    LET nd == Nd(e)
        known == e.sid \in DOMAIN nd.sidAid
        aid == nd.sidAid[e.sid] IN
    /\ Chk("C03", "yield-belongs-to-a-started-search", l, known)
    /\ known => Chk("C03", "yielded-address-was-in-a-response-to-an-outstanding-query-of-this-search", l, BagHas(nd.lk[aid].budget, e.addr))
    \* the mechanism: the peers of the consumed answers reach the stream in the order of consumption, answer by answer
    /\ known => MDrift("yields-in-the-order-of-the-consumed-answers", l, Len(nd.lk[aid].fifo) > 0 /\ Head(nd.lk[aid].fifo) = e.addr)
    /\ Upd(e, [nd EXCEPT !.yields = FSet(@, e.sid, Append(FGet(@, e.sid, <<>>), e.addr)),
                         !.lk = IF known /\ BagHas(nd.lk[aid].budget, e.addr)
                                THEN [@ EXCEPT ![aid].budget = BagDec(@, e.addr), ![aid].fifo = IF Len(@) > 0 THEN Tail(@) ELSE @] ELSE @])
    /\ UNCHANGED G

ClosedStep(e) ==
    LET nd == Nd(e)
        known == e.sid \in DOMAIN nd.sidAid
        aid == nd.sidAid[e.sid]
        lk == nd.lk[aid] IN
    /\ Chk("C16", "a-requested-search-is-carried-out-not-dropped", l, known)
    /\ known =>
          /\ Chk("C04", "stream-closes-exactly-when-the-search-is-done", l, lk.done /\ now <= lk.doneAt + SLACK)
          /\ (G.coop => Chk("C02", "every-peer-of-every-answer-was-delivered-once-per-occurrence", l, BagEmpty(lk.budget)))
          /\ (G.coop /\ lk.announce) =>
                 Chk("C02", "announced-to-exactly-the-8-closest-nodes", l, lk.anndst = UniverseClosest8(lk.target, nd.fam))
    /\ (known /\ lk.done) => Chk("C01", "a-search-finds-every-announcer-within-24h-and-none-after", l, E2EOK(e.node, lk, FGet(nd.yields, e.sid, <<>>)))
    /\ Upd(e, [nd EXCEPT !.closed = FSet(@, e.sid, now),
                         !.annClosed = IF known /\ lk.announce THEN Append(@, [ih |-> lk.ihx, at |-> now]) ELSE @])
    /\ UNCHANGED G

EndStep(e) ==
    /\ \A n \in DOMAIN S : S[n].bootn > 0 => PrintT(<<"BOOTSTATS", S[n].bootn>>)
    /\ \A n \in DOMAIN S : S[n].mechn > 0 =>
          PrintT(<<"MECHSTATS", S[n].mechn, Cardinality(DOMAIN S[n].lk),
                   Cardinality({a \in DOMAIN S[n].lk : S[n].lk[a].mech.why = "drift"}),
                   Cardinality({a \in DOMAIN S[n].lk : S[n].lk[a].mech.amb})>>)
    /\ \A n \in DOMAIN S : Chk("C15", "every-waiter-is-told-within-11-minutes-of-a-contact-becoming-responsive", l, WaitersOK(n))
    /\ \A n \in DOMAIN S :
          /\ Chk("C04", "every-search-ends", l, S[n].pendSearch = <<>> /\ DOMAIN S[n].sidAid \subseteq DOMAIN S[n].closed)
          /\ Chk("C16", "every-requested-search-was-started", l, S[n].pendSearch = <<>>)
    /\ \A i \in 1..Len(G.twins) :
          LET tw == G.twins[i]  nd == S[tw.node] IN
          Chk("C16", "early-search-yields-what-the-same-search-after-bootstrap-yields", l,
              SeqBag(FGet(nd.yields, tw.a, <<>>)) = SeqBag(FGet(nd.yields, tw.b, <<>>)))
    /\ UNCHANGED <<S, G>>

\* ------------------------------------------------------------------ steps

\* the mechanism's prediction of the bucket phase of a bootstrap (bootstrap.rs nodes_to_bootstrap_bucket): for bucket number b the
\* worker asks the first 8 questionable, not recently asked contacts of -- b < 2: the table walk towards the own id with bit b
\* flipped; otherwise: buckets b-2, b-1, b of the table in slot order.  Compared as DRIFT only, at the first query of a batch
\* (the table the worker chose from is the table then) and then query by query.
BootBucketPred(nd, b) ==
    LET tt == [nd.t EXCEPT !.self = nd.id]
        Bk(i) == IF i >= 1 /\ i <= Len(tt.buckets) THEN tt.buckets[i] ELSE <<>>
        src == IF b <= 1 THEN Closest(tt, FlipBit160(nd.id, b), now) ELSE Bk(b - 1) \o Bk(b) \o Bk(b + 1)
        w == SelectSeq(src, LAMBDA c : Status(c, now) = QUEST /\ ~RecentlyRequested(c, now)) IN
    [i \in 1..Min2(8, Len(w)) |-> w[i].addr]
IsBootBucketQuery(nd, m) ==
    /\ m.y = "q" /\ m.q = "find_node" /\ m.pfx # nd.raid /\ m.pfx \notin DOMAIN nd.lk
    /\ m.a.idl = 20 /\ m.a.targetl = 20 /\ m.a.target # nd.id
\* the first round of a bootstrap attempt: one find_node for the own id, under one transaction id, to every configured contact
IsBootInitialQuery(nd, m) ==
    /\ m.y = "q" /\ m.q = "find_node" /\ m.pfx # nd.raid /\ m.pfx \notin DOMAIN nd.lk
    /\ m.a.idl = 20 /\ m.a.targetl = 20 /\ m.a.target = nd.id /\ nd.bootstate = "InitialContact"
BootPhaseNext(nd, e) ==
    LET b == LCP160(nd.id, e.m.a.target)
        cont == nd.bphase.b = b /\ nd.bphase.i < Len(nd.bphase.list)
        L == IF cont THEN nd.bphase.list ELSE BootBucketPred(nd, b)
        i == IF cont THEN nd.bphase.i + 1 ELSE 1 IN
    \* a new batch begins only when the previous one was sent out completely
    [b |-> b, list |-> L, i |-> i, ok |-> i <= Len(L) /\ L[i] = e.dst /\ (cont \/ nd.bphase.i = Len(nd.bphase.list))]

IsNode(e) == Has(e, "node") /\ e.node \in DOMAIN S

SendStep(e) ==
    LET nd == Nd(e)  m == e.m
        inStep == nd.step.open
        st2 == IF inStep THEN [nd.step EXCEPT !.sends = Append(@, e)] ELSE nd.step
        isq == m.y = "q"
        aid == m.pfx
        islk == isq /\ aid \in DOMAIN nd.lk
        lk == nd.lk[aid] IN
    /\ FitsOK(nd, m, l)
    /\ Chk("C05", "read-only-node-never-replies", l, nd.ro => ~IsReply(m))
    /\ Chk("C05", "replies-only-inside-the-step-of-a-query", l,
           IsReply(m) => (inStep /\ nd.step.kind = "incoming" /\ ~NotAQuery(nd.step.m)))
    /\ Chk("C19", "queries-carry-8-byte-transaction-ids", l, isq => m.tl = 8)
    /\ Chk("C19", "a-transaction-id-is-never-used-twice-towards-the-same-address", l, isq => <<e.dst, m.t>> \notin nd.sentpairs)
    /\ Chk("C15", "no-contacts-no-queries", l, (isq /\ nd.contacts = {}) => FALSE)
    /\ IF islk /\ m.q = "get_peers"
       THEN /\ Chk("C03", "get_peers-for-the-searched-info-hash", l, m.a.info_hash = lk.target /\ m.a.id = nd.id)
            /\ Chk("C19", "transaction-id-fresh-within-the-search", l, m.t \notin DOMAIN lk.q)
            /\ Chk("C04", "no-query-after-the-search-finished", l, ~lk.done)
            /\ Upd(e, [nd EXCEPT !.step = st2, !.usedpfx = @ \cup {aid}, !.qsent = @ + 1, !.sentpairs = @ \cup {<<e.dst, m.t>>}, !.lastSentTo = FSet(@, e.dst, now),
                        !.lk[aid].q = FSet(lk.q, m.t, [dst |-> e.dst, at |-> now, answered |-> FALSE, timedout |-> FALSE, ok |-> e.ok]),
                        !.lk[aid].told = @ \cup {e.dst},
                        !.lk[aid].failed = @ + (IF e.ok THEN 0 ELSE 1)])
       ELSE IF islk /\ m.q = "announce_peer"
       THEN /\ Chk("C03", "announce-only-when-requested", l, lk.announce)
            /\ Chk("C03", "announce-carries-the-searched-info-hash-and-own-id", l, m.a.info_hash = lk.target /\ m.a.id = nd.id)
            /\ Chk("C03", "announce-goes-to-a-node-that-answered-with-a-token-and-carries-its-latest-token", l,
                   \E k \in DOMAIN lk.toks : k[2] = e.dst /\ lk.toks[k] = m.a.token)
            /\ Chk("C03", "at-most-8-announces-per-search", l, lk.nann < 8)
            /\ Chk("C02", "announce-port-as-configured", l,
                   IF nd.aport = -1 THEN m.a.implied ELSE (~m.a.implied /\ m.a.port = nd.aport))
            /\ Upd(e, [nd EXCEPT !.step = st2, !.usedpfx = @ \cup {aid}, !.qsent = @ + 1, !.sentpairs = @ \cup {<<e.dst, m.t>>}, !.lastSentTo = FSet(@, e.dst, now),
                        !.lk[aid].nann = @ + 1, !.lk[aid].anndst = @ \cup {e.dst}])
       ELSE /\ (IsBootBucketQuery(nd, m) => MDrift("bootstrap-bucket-phase-targets", l, BootPhaseNext(nd, e).ok))
            \* the mechanisms account for every query a node emits: searches (above), the bootstrap's two phases, refresh rounds
            /\ (isq => MDrift("every-query-is-accounted-for-by-a-mechanism", l,
                              \/ IsBootBucketQuery(nd, m) \/ IsBootInitialQuery(nd, m)
                              \/ (m.q = "find_node" /\ m.pfx = nd.raid /\ inStep /\ "cursor" \in DOMAIN nd.step)))
            /\ Upd(e, [nd EXCEPT !.step = st2, !.usedpfx = IF isq THEN @ \cup {aid} ELSE @, !.qsent = @ + (IF isq THEN 1 ELSE 0),
                             !.sentpairs = IF isq THEN @ \cup {<<e.dst, m.t>>} ELSE @,
                             !.lastSentTo = IF isq THEN FSet(@, e.dst, now) ELSE @,
                             !.bphase = IF IsBootBucketQuery(nd, m) THEN LET n == BootPhaseNext(nd, e) IN [b |-> n.b, list |-> n.list, i |-> n.i] ELSE @,
                             !.bootn = @ + (IF IsBootBucketQuery(nd, m) THEN 1 ELSE 0),
                             !.binit = IF IsBootInitialQuery(nd, m) THEN Append(@, [dst |-> e.dst, t |-> m.t]) ELSE @])
    /\ UNCHANGED G

RecvStep(e) ==
    LET nd == Nd(e)  m == e.m
        hk == IF m.y = "r" /\ Has(m, "r") /\ m.r.idl = 20 THEN <<m.r.id, e.src>>
              ELSE IF m.y = "q" /\ Has(m, "a") /\ m.a.idl = 20 THEN <<m.a.id, e.src>> ELSE <<>>
        isContactAnswer == m.y = "r" /\ e.src \in nd.contacts IN
    /\ Upd(e, [nd EXCEPT !.pend = m, !.psrc = e.src,
                         !.heard = IF hk = <<>> THEN @ ELSE FSet(@, hk, now),
                         !.lastNamed = IF m.y = "r" /\ Has(m, "r")
                                       THEN LET nm == Named(nd, m)
                                                as == {nm[i].addr : i \in 1..Len(nm)} \ {e.src} IN
                                            [a \in DOMAIN @ \cup as |-> IF a \in as THEN now ELSE @[a]]
                                       ELSE @,
                         !.answered = @ \/ isContactAnswer])
    /\ UNCHANGED G

\* a datagram that never reaches the handler (consumed by a bootstrap exchange or undecodable): nothing may be sent for it
SockRecvStep(e) ==
    LET nd == Nd(e) IN
    /\ Chk("C05", "well-formed-query-is-not-swallowed-by-a-pending-exchange", l,
           ~(e.routed = "exchange" /\ ~nd.ro /\ WellFormedQuery(nd.pend)))
    /\ Chk("C13", "well-formed-query-is-decodable", l, ~(e.routed = "undecodable" /\ WellFormedQuery(nd.pend)))
    /\ Upd(e, [nd EXCEPT !.pend = NoMsg]) /\ UNCHANGED G

\* a response reaching the handler: which lookup consumes it (if any)
ConsumeResponse(nd, m, src) ==
    LET aid == m.pfx IN
    IF m.y = "r" /\ Has(m, "r") /\ m.tl = 8 /\ aid \in DOMAIN nd.lk /\ ~nd.lk[aid].done
       /\ m.t \in DOMAIN nd.lk[aid].q /\ ~nd.lk[aid].q[m.t].answered
    THEN LET lk == nd.lk[aid]
             named == IF nd.fam = 4 THEN m.r.nodes ELSE m.r.nodes6 IN
         [nd EXCEPT !.lk[aid].q[m.t].answered = TRUE,
                    !.lk[aid].budget = BagAdd(lk.budget, m.r.values),
                    !.lk[aid].fifo = @ \o m.r.values,
                    !.lk[aid].consumed = @ + 1,
                    !.lk[aid].told = @ \cup {named[i].addr : i \in 1..Len(named)},
                    !.lk[aid].toks = IF m.r.tokenl >= 0 /\ m.r.idl = 20 THEN FSet(lk.toks, <<m.r.id, src>>, m.r.token) ELSE lk.toks]
    ELSE nd

HStepStep(e) ==
    LET nd0 == Nd(e)
        m == IF e.kind = "incoming" THEN nd0.pend ELSE NoMsg
        \* a response handed to the handler is consumed by the search whose outstanding query it answers (if any)
        \* a query whose 1.5 s time-out fires no longer keeps the search waiting, but its answer is still accepted while the search runs
        pfx == IF e.kind = "timer" /\ e.what = "LookupTimeout" THEN SubSeq(e.tid, 1, 10) ELSE ""
        nd == IF e.kind = "incoming" THEN ConsumeResponse(nd0, m, nd0.psrc)
              ELSE IF pfx # "" /\ pfx \in DOMAIN nd0.lk /\ e.tid \in DOMAIN nd0.lk[pfx].q
                   THEN [nd0 EXCEPT !.lk[pfx].q[e.tid].timedout = TRUE]
                   ELSE nd0 IN
    /\ Chk("C14", "steps-do-not-nest", l, ~nd0.step.open)
    /\ (pfx # "" /\ pfx \in DOMAIN nd0.lk /\ e.tid \in DOMAIN nd0.lk[pfx].q) =>
            Chk("C04", "a-query-times-out-1.5s-after-it-was-sent", l,
                now - nd0.lk[pfx].q[e.tid].at >= 1500 /\ now - nd0.lk[pfx].q[e.tid].at <= 1500 + SLACK)
    /\ Upd(e, [nd EXCEPT !.step = [open |-> TRUE, kind |-> e.kind, what |-> e.what, m |-> m, src |-> nd0.psrc, sends |-> <<>>, pre |-> nd0.t,
                                   tid |-> IF Has(e, "tid") THEN e.tid ELSE ""],
                         !.pend = NoMsg])
    /\ UNCHANGED G

Unsolicited(nd, m) == m.y = "r" /\ (m.tl # 8 \/ m.pfx \notin nd.usedpfx)

GoodOnlyIfHeard(nd, tt) ==
    \A p \in AllSlots(tt) :
        LET c == SlotC(tt, p) IN
        c.st = GOOD => (<<c.id, c.addr>> \in DOMAIN nd.heard /\ now - nd.heard[<<c.id, c.addr>>] < FIFTEEN + SLACK)

\* C11 on EVERY table dump (not only on the 5 s samples): a planned always-answering contact that was reported once is never
\* missing from the live part of the table
NeverLost(n, nd, tt) ==
    LET plan == PlanFor(n)
        live == {SlotC(tt, p).addr : p \in RLiveSlots(tt, now)} IN
    \A i \in 1..Len(plan) : (plan[i].mode = "Answer" /\ plan[i].addr \in nd.admitted) => (plan[i].addr \in live \/ Excused(nd, plan[i].addr))

\* the mechanism's prediction of a refresh round (refresh.rs continue_refresh): the first REFRESH_CONCURRENCY = 4 questionable, not
\* recently requested contacts of the table walk towards the id with bit `cursor` flipped -- compared as DRIFT only
PredRefresh(nd, tt, cursor) ==
    LET walk == SelectSeq(Closest([tt EXCEPT !.self = nd.id], FlipBit160(nd.id, cursor % 160), now),
                          LAMBDA c : Status(c, now) = QUEST /\ ~RecentlyRequested(c, now)) IN
    [i \in 1..Min2(4, Len(walk)) |-> walk[i].addr]
RefreshDrift(nd, st, pre, ln) ==
    (st.open /\ "cursor" \in DOMAIN st) =>
        LET fn == SelectSeq(st.sends, LAMBDA x : x.m.y = "q" /\ x.m.q = "find_node") IN
        MDrift("refresh-round-targets", ln, [i \in 1..Len(fn) |-> fn[i].dst] = PredRefresh(nd, pre, st.cursor))


\* ------------------------------------------------------------------ the search mechanism, datagram by datagram (DRIFT only)
\* LookupCore (the same operators Lookup.tla is model-checked with) is run alongside every search: from the table at the start
\* of the step that starts it, and then from every answer and every time-out handed to the handler, it predicts the destination
\* of every get_peers query, in order, the moment the end-game starts, and the destinations of the announces.  A mismatch is
\* DRIFT (the model is not the code, or the code changed) -- never a violation; the prediction of that search then stops.
QueriesOf(st, aid, q) ==
    LET s == SelectSeq(st.sends, LAMBDA x : x.m.y = "q" /\ x.m.pfx = aid /\ x.m.q = q) IN
    [i \in 1..Len(s) |-> [t |-> s[i].m.t, ok |-> s[i].ok, dst |-> s[i].dst]]
Addrs(hs) == [i \in 1..Len(hs) |-> hs[i].addr]
Dsts(A) == [i \in 1..Len(A) |-> A[i].dst]
MechOff(mech, why) == [on |-> FALSE, n |-> mech.n, why |-> why, amb |-> mech.amb]
\* the result: the mechanism state after the step, whether a prediction was made and whether it failed
MechStart(nd, st, pre, lk, aid) ==
    LET walk == SelectSeq(Closest([pre EXCEPT !.self = nd.id], lk.target, now), LAMBDA c : Status(c, now) = GOOD)
        N == LC!New(Handles(walk), lk.target)
        A == QueriesOf(st, aid, "get_peers")
        n == Len(N.picks)
        same == Addrs([i \in 1..n |-> N.picks[i].h]) = Dsts(A) IN
    IF same THEN LET st1 == LC!AfterRound(N.st, N.picks, [i \in 1..n |-> A[i].t], [i \in 1..n |-> A[i].ok]) IN
                 \* nothing could be asked: lookup.completed(), the search finishes in the same step (and has nobody to announce to)
                 [mech |-> IF DOMAIN st1.active = {} THEN [on |-> FALSE, n |-> 1, why |-> "finished", amb |-> FALSE] ELSE st1 @@ [on |-> TRUE, n |-> 1, why |-> ""],
                  made |-> TRUE, bad |-> FALSE]
    ELSE [mech |-> MechOff(lk.mech, "drift"), made |-> TRUE, bad |-> TRUE]
MechDrive(mech, st1, picks, A) ==
    LET D == LC!Drive(st1, picks, A) IN
    IF Addrs(D.asked) = Dsts(A) THEN [mech |-> [D.st EXCEPT !.n = @ + 1], made |-> TRUE, bad |-> FALSE]
    ELSE [mech |-> MechOff(mech, "drift"), made |-> TRUE, bad |-> TRUE]
MechNext(nd, st, pre, aid) ==
    LET lk == nd.lk[aid]  mech == lk.mech  m == st.m IN
    IF lk.fresh THEN MechStart(nd, st, pre, lk, aid)
    ELSE IF ~mech.on THEN [mech |-> mech, made |-> FALSE, bad |-> FALSE]
    ELSE IF st.kind = "incoming" /\ m.y = "r" /\ Has(m, "r") /\ m.tl = 8 /\ m.pfx = aid /\ m.r.idl = 20 /\ ~lk.done THEN
        LET R == LC!OnResponse(mech, m.t, [id |-> m.r.id, addr |-> st.src], Handles(Named(nd, m)), m.r.tokenl >= 0) IN
        MechDrive(mech, R.st, R.picks, QueriesOf(st, aid, "get_peers"))
    ELSE IF st.kind = "timer" /\ st.what = "LookupTimeout" /\ SubSeq(st.tid, 1, 10) = aid /\ ~lk.done THEN
        MechDrive(mech, LC!OnTimeout(mech, st.tid), <<>>, QueriesOf(st, aid, "get_peers"))
    ELSE IF st.kind = "timer" /\ st.what = "LookupEndGame" /\ SubSeq(st.tid, 1, 10) = aid THEN
        LET want == IF lk.announce THEN Addrs(LC!Announces(mech)) ELSE <<>> IN
        \* ... fired by the end-game timer, 1.5 s after the end-game began
        [mech |-> MechOff([mech EXCEPT !.n = @ + 1], "finished"), made |-> TRUE,
         bad |-> want # Dsts(QueriesOf(st, aid, "announce_peer")) \/ lk.eg < 0 \/ now < lk.eg + 1500 \/ now > lk.eg + 1500 + SLACK]
    ELSE [mech |-> mech, made |-> FALSE, bad |-> FALSE]
\* the searches a step can concern
MechAids(nd, st) ==
    IF ~st.open THEN {}
    ELSE {a \in DOMAIN nd.lk : nd.lk[a].fresh}
         \cup (IF st.kind = "incoming" /\ st.m.y = "r" /\ Has(st.m, "pfx") THEN {st.m.pfx} \cap DOMAIN nd.lk ELSE {})
         \cup (IF st.kind = "timer" /\ st.tid # "" /\ Len(st.tid) >= 10 THEN {SubSeq(st.tid, 1, 10)} \cap DOMAIN nd.lk ELSE {})

\* a contact counts as admitted from the first table dump that shows it live (not only from the first 5 s sample)
LiveAddrs(tt) == {SlotC(tt, p).addr : p \in RLiveSlots(tt, now)}
TableChecks(nd, tt, ln) ==
    /\ Chk("C11", "a-contact-that-always-answers-is-never-lost (every table dump)", ln, NeverLost(Rec[ln].node, nd, tt))
    /\ Chk("C08", "table-shape", ln, ShapeOK([tt EXCEPT !.self = nd.id], now))
    /\ Chk("C12", "good-only-if-it-answered-or-queried-us", ln, GoodOnlyIfHeard(nd, tt))
    /\ Chk("C12", "router-addresses-and-the-own-id-are-never-admitted-whoever-names-them", ln,
           \A p \in RLiveSlots(tt, now) : SlotC(tt, p).addr \notin tt.routers /\ SlotC(tt, p).id # nd.id)

HEndStep(e) ==
    LET nd0 == Nd(e)
        st == nd0.step
        post == ApplyDiff(nd0.t, e.ch)
        m == IF st.open THEN st.m ELSE NoMsg
        src == IF st.open THEN st.src ELSE PlaceholderAddr
        pre == IF st.open THEN st.pre ELSE nd0.t
        serving == ~nd0.ro
        isIncoming == st.open /\ st.kind = "incoming"
        sends == IF st.open THEN st.sends ELSE <<>>
        replies == SelectSeq(sends, LAMBDA x : IsReply(x.m))
        nd1 == nd0
        nd2 == IF isIncoming /\ serving /\ WellFormedQuery(m) /\ Len(sends) = 1 /\ sends[1].ok
               THEN Effects(nd1, m, src, sends[1]) ELSE nd1 IN
    /\ Chk("C14", "step-was-open", l, st.open \/ ~e.running)
    /\ (isIncoming /\ serving /\ WellFormedQuery(m)) =>
            /\ Chk("C05", "exactly-one-reply-to-a-well-formed-query", l, Len(sends) = 1)
            /\ (Len(sends) = 1 => ReplyChecks(nd0, m, src, sends[1], l))
            /\ (Len(sends) = 1 /\ m.q = "announce_peer" => AnnounceVerdict(nd0, m, src, sends[1], l))
    /\ (isIncoming /\ NotAQuery(m)) => Chk("C05", "non-queries-are-never-answered", l, Len(replies) = 0)
    /\ (isIncoming /\ m.y = "q") => Chk("C12", "a-query-never-admits-its-sender", l, RLiveHandles(post, now) \subseteq RLiveHandles(pre, now))
    /\ (isIncoming /\ Unsolicited(nd0, m)) => Chk("C12", "unsolicited-response-changes-no-contacts", l, RLiveHandles(post, now) = RLiveHandles(pre, now))
    /\ (Len(e.ch[2]) > 0 => TableChecks(nd0, post, l))
    /\ RefreshDrift(nd0, st, pre, l)
    /\ \A a \in MechAids(nd0, st) : MDrift("search-queries-and-announces-as-LookupCore-predicts", l, ~MechNext(nd0, st, pre, a).bad)
    /\ Chk("C14", "node-keeps-running-while-handles-exist", l, e.running \/ ~st.open)
    /\ Upd(e, [nd2 EXCEPT !.t = post, !.step = [open |-> FALSE],
                         !.admitted = IF Len(e.ch[2]) > 0 THEN @ \cup LiveAddrs(post) ELSE @,
                         !.lk = LET aids == MechAids(nd0, st) IN
                                [a \in DOMAIN @ |-> IF a \in aids THEN [@[a] EXCEPT !.fresh = FALSE, !.mech = MechNext(nd0, st, pre, a).mech]
                                                   ELSE @[a]],
                         !.mechn = @ + Cardinality({a \in MechAids(nd0, st) : MechNext(nd0, st, pre, a).made})])
    /\ UNCHANGED G

WorkerTable(e) ==
    LET nd == Nd(e)  post == ApplyDiff(nd.t, e.ch) IN
    /\ (Len(e.ch[2]) > 0 => TableChecks(nd, post, l))
    /\ (e.ev = "BootState" => MDrift("bootstrap-bucket-phase-batch-complete", l, nd.bphase.i = Len(nd.bphase.list)))
    \* the worker's state machine (Bootstrap.tla): its edges, the back-off 2^min(attempt+1, 9) s after a failed attempt, the 5 s
    \* table check while bootstrapped -- compared as DRIFT only
    /\ (e.ev = "BootState" =>
            /\ MDrift("bootstrap-state-machine-edge", l,
                      /\ e.from = nd.bootstate
                      /\ <<e.from, e.to>> \in {<<"AwaitStart", "InitialContact">>, <<"AwaitStart", "Bootstrapped">>, <<"AwaitStart", "IdleBeforeRebootstrap">>,
                                               <<"InitialContact", "IdleBeforeRebootstrap">>, <<"InitialContact", "Bootstrapping">>,
                                               <<"Bootstrapping", "Bootstrapped">>, <<"Bootstrapping", "IdleBeforeRebootstrap">>,
                                               <<"Bootstrapped", "InitialContact">>, <<"IdleBeforeRebootstrap", "InitialContact">>})
            /\ (e.from = "InitialContact" =>
                    \* ... unless min(8, number of contacts) of them have answered before all were asked (beyond nine the sends are throttled)
                    MDrift("bootstrap-first-round-asks-every-contact-once-under-one-transaction-id", l,
                           /\ {nd.binit[i].dst : i \in 1..Len(nd.binit)} \subseteq nd.contacts
                           /\ \A i, j \in 1..Len(nd.binit) : (nd.binit[i].t = nd.binit[j].t) /\ (i # j => nd.binit[i].dst # nd.binit[j].dst)
                           /\ (Len(nd.binit) = Cardinality(nd.contacts) \/ nd.bacc >= Min2(8, Cardinality(nd.contacts)))))
            /\ (e.from = "IdleBeforeRebootstrap" => MDrift("bootstrap-back-off", l, now - nd.bsince = BS!Backoff(nd.battempt)))
            /\ (e.from = "Bootstrapped" => MDrift("rebootstrap-decided-at-a-5s-table-check", l, now > nd.bsince /\ (now - nd.bsince) % 5000 = 0)))
    /\ Upd(e, [nd EXCEPT !.t = post, !.bootstate = IF e.ev = "BootState" THEN e.to ELSE @,
                         !.admitted = IF Len(e.ch[2]) > 0 THEN @ \cup LiveAddrs(post) ELSE @,
                         !.bphase = IF e.ev = "BootState" THEN [b |-> -1, list |-> <<>>, i |-> 0] ELSE @,
                         !.bsince = IF e.ev = "BootState" THEN now ELSE @,
                         !.bcomp = IF e.ev = "BootState" /\ e.to = "Bootstrapped" THEN Append(@, now) ELSE @,
                         !.bcredit = IF e.ev = "BootState" /\ e.to = "Bootstrapped" THEN 1 ELSE @,
                         !.binit = IF e.ev = "BootState" THEN <<>> ELSE @,
                         !.bacc = IF e.ev = "BootState" THEN 0 ELSE IF e.ev = "BootMsg" /\ e.accepted THEN @ + 1 ELSE @,
                         !.battempt = IF e.ev # "BootState" THEN @ ELSE IF e.to = "Bootstrapped" THEN 0
                                      ELSE IF e.from = "IdleBeforeRebootstrap" THEN @ + 1 ELSE @])
    /\ UNCHANGED G

Step(e) ==
    CASE e.ev = "Reset" -> S' = <<>> /\ G' = [universe |-> <<>>, plan |-> <<>>, coop |-> FALSE, proj |-> FALSE, twins |-> <<>>, responsive |-> <<>>, searching |-> <<>>]
      [] e.ev = "NodeCfg" -> S' = FSet(S, e.node, NodeInit(e)) /\ UNCHANGED G
      [] e.ev = "NodeStart" -> Upd(e, [Nd(e) EXCEPT !.id = e.id, !.usedpfx = @ \cup {e.refresh_aid}, !.t.self = e.id, !.raid = e.refresh_aid]) /\ UNCHANGED G
      [] e.ev = "Send" -> SendStep(e)
      [] e.ev = "Recv" -> RecvStep(e)
      [] e.ev = "SockRecv" -> SockRecvStep(e)
      [] e.ev = "HStep" -> HStepStep(e)
      [] e.ev = "HEnd" -> HEndStep(e)
      [] e.ev \in {"BootState", "BootMsg", "BootSent"} -> IF Has(e, "ch") THEN WorkerTable(e) ELSE UNCHANGED <<S, G>>
      [] e.ev = "Universe" -> G' = [G EXCEPT !.universe = e.nodes] /\ UNCHANGED S
      [] e.ev = "Scenario" -> G' = [G EXCEPT !.coop = e.coop, !.proj = Has(e, "projection") /\ e.projection] /\ UNCHANGED S
      [] e.ev = "Twin" -> G' = [G EXCEPT !.twins = Append(@, [node |-> e.node, a |-> e.a, b |-> e.b])] /\ UNCHANGED S
      [] e.ev = "ApiSearch" -> ApiSearchStep(e)
      [] e.ev = "LookupQueued" -> LookupQueuedStep(e)
      [] e.ev = "LookupStart" -> LookupStartStep(e)
      [] e.ev = "Endgame" -> EndgameStep(e)
      [] e.ev = "LookupDone" -> LookupDoneStep(e)
      [] e.ev = "Yield" -> YieldStep(e)
      [] e.ev = "Closed" -> ClosedStep(e)
      [] e.ev = "End" -> EndStep(e)
      [] e.ev = "BootSuccess" -> Upd(e, [Nd(e) EXCEPT !.succ = Append(@, now)]) /\ UNCHANGED G
      [] e.ev = "RefreshRound" -> RefreshRoundStep(e)
      [] e.ev = "ApiBootWait" -> BootWaitStep(e)
      [] e.ev = "ApiBootRet" -> BootRetStep(e)
      [] e.ev = "Responsive" -> G' = [G EXCEPT !.responsive = FSet(@, e.node, e.since)] /\ UNCHANGED S
      [] e.ev = "Plan" -> G' = [G EXCEPT !.plan = FSet(@, e.node, e.peers), !.searching = FSet(@, e.node, e.searches)] /\ UNCHANGED S
      [] e.ev = "PeerSend" -> PeerSendStep(e)
      [] e.ev = "ApiContacts" /\ e.alive -> ContactsSampleStep(e)
      [] e.ev \in {"ApiState", "ApiContacts", "ApiLocalAddr"} ->
            /\ Chk("C14", "api-call-completes", l, e.alive)
            /\ Chk("C15", "node-stays-alive", l, e.alive)
            /\ UNCHANGED <<S, G>>
      [] OTHER -> UNCHANGED <<S, G>>

Next == l <= NRec /\ l' = l + 1 /\ Step(Rec[l])
Spec == Init /\ [][Next]_vars
=============================================================================
