SPECIFICATION Spec
CONSTANT StrictProps = {"C13"}
POSTCONDITION Accepted
CHECK_DEADLOCK FALSE
