------------------------------ MODULE WireTrace ------------------------------
(***************************************************************************)
(* C13: the real KRPC codec against the executable wire specification.     *)
(* Events (harness `vh wire`):                                             *)
(*   Enc{m, bytes, ok}     the real encoder's output for abstract message m *)
(*   Dec{variant, must, ok, m, expect, len}  the real decoder's result on a *)
(*       canonical / key-permuted / unknown-key / ill-formed encoding       *)
(* TLC evaluates Wire!Encode(m) = bytes, decoded = expected, and rejection  *)
(* of the ill-formed variants.                                              *)
(***************************************************************************)
EXTENDS TraceLib, WireParse

VARIABLES l, kinds
vars == <<l, kinds>>
Init == l = 1 /\ kinds = {}

Step(e) ==
    CASE e.ev = "Reset" -> UNCHANGED kinds
      [] e.ev = "Enc" ->
            /\ Chk("C13", "encoder-succeeds-on-well-formed-message", l, e.ok)
            /\ Chk("C13", "encoder-emits-the-canonical-bencoding", l, e.ok => Encode(e.m) = e.bytes)
            /\ kinds' = kinds \cup {e.m.kind}
      [] e.ev = "Dec" ->
            \* the specification's own reading of the datagram must agree with what the harness says the variant is:
            \* a disagreement is a defect of the machinery (oracle or variant generator), never of the code
            /\ IF (e.must = "accept" /\ Interpret(e.bytes) = e.expect) \/ (e.must # "accept" /\ Interpret(e.bytes) = Reject)
               THEN TRUE ELSE PrintT(<<"ORACLEMISMATCH", e.variant, l>>)
            /\ IF e.must = "accept"
               THEN /\ Chk("C13", "decoder-accepts-" \o e.variant, l, e.ok)
                    /\ Chk("C13", "decoder-yields-the-same-message-" \o e.variant, l, e.ok => e.m = e.expect)
               ELSE Chk("C13", "decoder-rejects-" \o e.variant, l, ~e.ok)
            /\ UNCHANGED kinds
      [] e.ev = "End" ->
            /\ Chk("C13", "all-message-kinds-exercised", l, kinds = {"ping", "find_node", "get_peers", "announce_peer", "resp", "err"})
            /\ UNCHANGED kinds

Next == l <= NRec /\ l' = l + 1 /\ Step(Rec[l])
Spec == Init /\ [][Next]_vars
=============================================================================
