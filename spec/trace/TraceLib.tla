------------------------------ MODULE TraceLib ------------------------------
(***************************************************************************)
(* Shared scaffolding of all trace specifications (impl -> spec binding).  *)
(* A trace is an NDJSON file (env TRACE), one event per line, in program   *)
(* order of the single-threaded harness.  The trace specification consumes *)
(* one line per step; acceptance = all lines consumed (POSTCONDITION).     *)
(*                                                                         *)
(* Chk(P, name, cond): a constraint that encodes (part of) the statement   *)
(* of property P.  It is enforced only when P is in StrictProps (constant  *)
(* of the configuration), so that a check alarms only for its own          *)
(* property; a failed check prints a CHKFAIL line naming the constraint    *)
(* and the trace line, and disables the step (trace rejected there).       *)
(*                                                                         *)
(* Drift(name, cond): the mechanism specification predicted something else *)
(* than the code did, but no property statement is involved.  Reported,    *)
(* never a violation; the logged state is adopted and validation goes on.  *)
(***************************************************************************)
EXTENDS Integers, Sequences, TLC, Json, IOUtils

CONSTANT StrictProps

Rec == ndJsonDeserialize(IOEnv.TRACE)
NRec == Len(Rec)

Chk(P, name, lineno, cond) ==
    IF cond THEN TRUE
    ELSE IF P \in StrictProps
         THEN PrintT(<<"CHKFAIL", P, name, lineno>>) /\ FALSE
         ELSE TRUE

Drift(name, lineno, cond) ==
    IF cond THEN TRUE ELSE PrintT(<<"DRIFT", name, lineno>>)

Has(e, f) == f \in DOMAIN e

\* POSTCONDITION: every line was consumed (one state per line plus the initial state)
Accepted ==
    LET d == TLCGet("stats").diameter IN
    IF d = NRec + 1 THEN PrintT(<<"ACCEPTED", NRec>>)
    ELSE PrintT(<<"REJECTED", d, IF d <= NRec THEN Rec[d] ELSE <<>> >>) /\ FALSE
=============================================================================
