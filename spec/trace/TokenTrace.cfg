SPECIFICATION Spec
CONSTANT StrictProps = {"C06"}
POSTCONDITION Accepted
CHECK_DEADLOCK FALSE
