----------------------------- MODULE TokenTrace -----------------------------
(***************************************************************************)
(* Trace specification for the token store (C06).  Events (harness         *)
(* `vh tokens`): Reset | Adv{t} | Get{t,ip,tok,cur,prev,last} |            *)
(* Ann{t,ip,tok,v,cur,prev,last}.  Tokens and secrets are opaque strings.  *)
(* The verdict of every Ann is judged by the history statement of C06      *)
(* (TokenStore!VerdictOK); the two-secret mechanism is run alongside and   *)
(* any difference is reported as drift.                                    *)
(***************************************************************************)
EXTENDS TraceLib, FiniteSets

ROT == 600000
INSTANCE TokenStore

VARIABLES l, now, h, s, tokmap, nann
vars == <<l, now, h, s, tokmap, nann>>

Fresh == [now |-> 0, h |-> {}, s |-> [cur |-> "?", prev |-> "?", last |-> 0], tokmap |-> <<>>]

Init == l = 1 /\ now = 0 /\ h = {} /\ s = Fresh.s /\ tokmap = <<>> /\ nann = 0

Logged(e) == [cur |-> e.cur, prev |-> e.prev, last |-> e.last]

TokOf(ip, sec) == IF <<ip, sec>> \in DOMAIN tokmap THEN tokmap[<<ip, sec>>] ELSE "none"

Step(e) ==
    CASE e.ev = "Reset" ->
            /\ now' = e.t /\ h' = {} /\ tokmap' = <<>> /\ nann' = nann
            /\ s' = Logged(e)
      [] e.ev = "Adv" ->
            /\ Chk("C06", "time-monotonic", l, e.t >= now)
            /\ now' = e.t /\ UNCHANGED <<h, s, tokmap, nann>>
      [] e.ev = "Get" ->
            LET pred == TS_Checkout(s, e.t, e.cur, e.prev) IN
            /\ now' = e.t
            /\ h' = H_Issue(H_Prune(h, e.t), e.ip, e.tok, e.t)
            /\ Drift("token-store-state", l, pred = Logged(e))
            /\ Drift("token-deterministic", l, TokOf(e.ip, e.cur) \in {"none", e.tok})
            /\ s' = Logged(e)
            /\ tokmap' = (<<e.ip, e.cur>> :> e.tok) @@ tokmap
            /\ nann' = nann
      [] e.ev = "Ann" ->
            LET wellformed == Len(e.tok) = 40   \* 20 bytes in hex
                pred == IF wellformed THEN TS_Refresh(s, e.t, e.cur, e.prev) ELSE s
                pv == wellformed /\ e.tok \in ({TokOf(e.ip, sec) : sec \in TS_ValidSecrets(Logged(e))} \ {"none"}) IN
            /\ now' = e.t
            /\ Chk("C06", "verdict-consistent-with-history", l, VerdictOK(h, e.ip, e.tok, e.t, e.v))
            /\ Drift("token-store-state", l, pred = Logged(e))
            /\ Drift("verdict-mechanism", l, pv = e.v)
            /\ s' = Logged(e)
            /\ UNCHANGED <<h, tokmap>>
            /\ nann' = nann + 1

Next == l <= NRec /\ l' = l + 1 /\ Step(Rec[l])

Spec == Init /\ [][Next]_vars
=============================================================================
