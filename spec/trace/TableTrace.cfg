SPECIFICATION Spec
CONSTANT StrictProps = {"C08", "C09", "C10", "C12"}
POSTCONDITION Accepted
CHECK_DEADLOCK FALSE
