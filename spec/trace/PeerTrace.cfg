SPECIFICATION Spec
CONSTANT StrictProps = {"C07"}
POSTCONDITION Accepted
CHECK_DEADLOCK FALSE
