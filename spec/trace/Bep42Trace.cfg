SPECIFICATION Spec
CONSTANT StrictProps = {"C20"}
POSTCONDITION Accepted
CHECK_DEADLOCK FALSE
