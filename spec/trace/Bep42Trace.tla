----------------------------- MODULE Bep42Trace -----------------------------
(***************************************************************************)
(* C20: every id produced by the real InfoHash::from_ip must pass the      *)
(* BEP42 validation of spec/Bep42.tla for the address it was derived from. *)
(* Events (harness `vh bep42`): Reset | Id{ip:[bytes], id:[20 bytes]}.     *)
(* Vacuity guard: the three random bits must take all 8 values in a run.   *)
(***************************************************************************)
EXTENDS TraceLib, Bep42, FiniteSets

VARIABLES l, rs, n4, n6
vars == <<l, rs, n4, n6>>
Init == l = 1 /\ rs = {} /\ n4 = 0 /\ n6 = 0

Step(e) ==
    CASE e.ev = "Reset" -> UNCHANGED <<rs, n4, n6>>
      [] e.ev = "Id" ->
            /\ Chk("C20", "id-is-20-bytes", l, Len(e.id) = 20)
            /\ Chk("C20", "id-passes-bep42-validation-for-its-address", l, Bep42Ok(e.ip, e.id))
            /\ rs' = rs \cup {e.id[20] & 7}
            /\ n4' = n4 + (IF Len(e.ip) = 4 THEN 1 ELSE 0)
            /\ n6' = n6 + (IF Len(e.ip) = 16 THEN 1 ELSE 0)
      [] e.ev = "End" ->
            /\ Chk("C20", "random-bits-take-all-values", l, rs = 0..7)
            /\ UNCHANGED <<rs, n4, n6>>

Next == l <= NRec /\ l' = l + 1 /\ Step(Rec[l])
Spec == Init /\ [][Next]_vars
=============================================================================
