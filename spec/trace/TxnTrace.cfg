SPECIFICATION Spec
CONSTANT StrictProps = {"C19"}
POSTCONDITION Accepted
CHECK_DEADLOCK FALSE
