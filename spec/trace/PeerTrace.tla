------------------------------ MODULE PeerTrace ------------------------------
(***************************************************************************)
(* Trace specification for the peer store (C07) at production constants.   *)
(* Events (harness `vh peers`): Reset{t} | Adv{t} | Add{t,ih,addr,ok,n} |  *)
(* Find{t,ih,out} | Dump{q,idx}.  Every Add verdict and every Find result  *)
(* is judged by the history statement (PeerStore!AddOK / FindOK); the      *)
(* queue mechanism runs alongside (order of results, queue length) and     *)
(* differences are reported as drift, after which the logged state is      *)
(* adopted at the next Dump.                                               *)
(***************************************************************************)
EXTENDS TraceLib, FiniteSets

CAP == 500
TTL == 86400000
INSTANCE PeerStore

VARIABLES l, now, s, acked
vars == <<l, now, s, acked>>

Init == l = 1 /\ now = 0 /\ s = PS_Init /\ acked = A_Init

ForceAdd(st, ih, addr, t) ==
    LET p == PS_Purge(st, t) IN
    [q |-> Append(SelectSeq(p.q, LAMBDA e : ~(e.ih = ih /\ e.addr = addr)), [ih |-> ih, addr |-> addr, at |-> t]),
     idx |-> IF PS_Has(p, ih, addr) THEN p.idx ELSE IdxSet(p.idx, ih, Append(IdxGet(p.idx, ih), addr))]

Step(e) ==
    CASE e.ev = "Reset" -> now' = e.t /\ s' = PS_Init /\ acked' = A_Init
      [] e.ev = "Adv" -> now' = e.t /\ UNCHANGED <<s, acked>>
      [] e.ev = "Add" ->
            LET r == PS_Add(s, e.ih, e.addr, e.t) IN
            /\ now' = e.t
            /\ Chk("C07", "announce-verdict-consistent-with-history", l, AddOK(acked, e.ih, e.addr, e.t, e.ok))
            /\ Drift("add-verdict", l, r.ok = e.ok)
            /\ acked' = IF e.ok THEN A_Ack(acked, e.ih, e.addr, e.t) ELSE acked
            /\ Chk("C07", "at-most-500-pairs", l, BoundedOK(acked', e.t))
            /\ s' = IF r.ok = e.ok THEN r.st ELSE IF e.ok THEN ForceAdd(s, e.ih, e.addr, e.t) ELSE PS_Purge(s, e.t)
            /\ Drift("queue-length", l, Len(s'.q) = e.n)
      [] e.ev = "Find" ->
            LET r == PS_Find(s, e.ih, e.t) IN
            /\ now' = e.t
            /\ Chk("C07", "query-returns-exactly-the-live-announced-addresses", l, FindOK(acked, e.ih, e.t, e.out))
            /\ Drift("find-order", l, r.out = e.out)
            /\ s' = r.st /\ acked' = A_Prune(acked, e.t)
      [] e.ev = "Dump" ->
            LET q == [i \in 1..Len(e.q) |-> [ih |-> e.q[i][1], addr |-> e.q[i][2], at |-> e.q[i][3]]]
                idx == [k \in {e.idx[i][1] : i \in 1..Len(e.idx)} |->
                          (CHOOSE p \in {e.idx[i] : i \in 1..Len(e.idx)} : p[1] = k)[2]] IN
            /\ Drift("queue-content", l, s.q = q)
            /\ Drift("index-content", l, s.idx = idx)
            /\ s' = [q |-> q, idx |-> idx] /\ UNCHANGED <<now, acked>>

Next == l <= NRec /\ l' = l + 1 /\ Step(Rec[l])
Spec == Init /\ [][Next]_vars
=============================================================================
