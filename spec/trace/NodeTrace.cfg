SPECIFICATION Spec
CONSTANT StrictProps = {"C02", "C03", "C04", "C05", "C06", "C07", "C08", "C09", "C11", "C12", "C14", "C15", "C16", "C17", "C18", "C19"}
POSTCONDITION Accepted
CHECK_DEADLOCK FALSE
