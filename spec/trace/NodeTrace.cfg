SPECIFICATION Spec
CONSTANT StrictProps = {"C02", "C03", "C04"}
POSTCONDITION Accepted
CHECK_DEADLOCK FALSE
