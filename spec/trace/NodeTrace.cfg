SPECIFICATION Spec
CONSTANT StrictProps = {"C03"}
POSTCONDITION Accepted
CHECK_DEADLOCK FALSE
