SPECIFICATION Spec
CONSTANT StrictProps = {"C11"}
POSTCONDITION Accepted
CHECK_DEADLOCK FALSE
