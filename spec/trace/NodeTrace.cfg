SPECIFICATION Spec
CONSTANT StrictProps = {"C01"}
POSTCONDITION Accepted
CHECK_DEADLOCK FALSE
