----------------------------- MODULE TableTrace -----------------------------
(***************************************************************************)
(* Trace specification for the routing table at production constants       *)
(* (K = 8, 160 buckets, 20-byte ids): C08, C09, C10.                       *)
(* Events (harness `vh table`):                                            *)
(*   Reset{t,self,routers} | Adv{t,ch} | Good{t,id,addr,ch} |              *)
(*   Quest{t,id,addr,ch} | Local{t,id,addr,ch} | Remote{t,id,addr,ch} |    *)
(*   Closest{t,target,out} | Contacts{t,good,quest,ng,nq}                  *)
(* `ch` = the buckets that differ from the previous dump, as               *)
(* [nb, [[index, slots]...]]; a slot is {e:1} (free placeholder) or        *)
(* {id,addr,rsp,req,loc,cnt,st}.  After every operation the statements of  *)
(* TableProps are evaluated on the OBSERVED tables (C08 shape + offer      *)
(* rules, C10 classification with the status the code reports, C09 on      *)
(* every enumeration); the mechanism (RoutingTable.tla) predicts the next  *)
(* dump and differences are reported as drift, then the dump is adopted.   *)
(***************************************************************************)
EXTENDS TraceLib, FiniteSets, Ids160

K == 8
MAXB == 160
ZeroId == Zero160
PlaceholderAddr == [fam |-> 4, ip |-> "127.0.0.1", port |-> 0]
LowestFirst == TRUE
RT == INSTANCE RoutingTable WITH LCP <- LCP160
\* the standing the real code reported for a slot; the offered contact itself has no report
ObsStatus(c, n) == IF "st" \in DOMAIN c THEN c.st ELSE RT!Status(c, n)
INSTANCE TableProps WITH LCP <- LCP160, RStatus <- ObsStatus

VARIABLES l, now, t, hist
vars == <<l, now, t, hist>>

Init == l = 1 /\ now = 0 /\ t = TableInit(Zero160) /\ hist = <<>>

\* ---- reading dumps
SlotOf(x) == IF "e" \in DOMAIN x THEN [Placeholder EXCEPT !.id = ZeroId] @@ [st |-> BAD]
             ELSE [id |-> x.id, addr |-> x.addr, rsp |-> x.rsp, req |-> x.req, loc |-> x.loc, cnt |-> x.cnt, st |-> x.st]
Strip(c) == [id |-> c.id, addr |-> c.addr, rsp |-> c.rsp, req |-> c.req, loc |-> c.loc, cnt |-> c.cnt]
StripT(tt) == [tt EXCEPT !.buckets = [b \in 1..Len(tt.buckets) |-> [i \in 1..K |-> Strip(tt.buckets[b][i])]]]
\* ch = <<nb, <<<<index, slots>>, ...>>>> ; buckets not listed keep their previous content
ApplyDiff(tt, ch) ==
    LET nb == ch[1]
        listed == {ch[2][j][1] : j \in 1..Len(ch[2])}
        get(b) == (CHOOSE j \in 1..Len(ch[2]) : ch[2][j][1] = b) IN
    [tt EXCEPT !.buckets = [b \in 1..nb |->
        IF b \in listed THEN [i \in 1..K |-> SlotOf(ch[2][get(b)][2][i])]
        ELSE tt.buckets[b]]]
H(e) == [id |-> e.id, addr |-> e.addr]
HandlesOf(out) == [i \in 1..Len(out) |-> [id |-> out[i].id, addr |-> out[i].addr]]

Common(e, obs, h2) ==
    /\ Chk("C08", "table-shape", l, ShapeOK(obs, e.t))
    /\ Chk("C10", "classification", l, ClassifyOK(h2, obs, e.t))
    /\ t' = obs /\ hist' = HPrune(h2, obs, e.t) /\ now' = e.t

Step(e) ==
    CASE e.ev = "Reset" ->
            /\ t' = [TableInit(e.self) EXCEPT !.routers = {e.routers[i] : i \in 1..Len(e.routers)},
                                              !.buckets = <<[i \in 1..K |-> Placeholder @@ [st |-> BAD]]>>]
            /\ hist' = <<>> /\ now' = e.t
      [] e.ev = "Adv" ->
            LET obs == ApplyDiff(t, e.ch) IN
            /\ Drift("time-changes-nothing-but-status", l, StripT(obs) = StripT(t))
            /\ Drift("status-function", l, \A p \in AllSlots(obs) : SlotC(obs, p).st = RT!Status(SlotC(obs, p), e.t))
            /\ Chk("C10", "not-dropped-by-time-alone", l, NoSpuriousDrop(hist, t, obs, e.t))
            /\ Common(e, obs, hist)
      [] e.ev \in {"Good", "Quest"} ->
            LET obs == ApplyDiff(t, e.ch)
                good == e.ev = "Good"
                c == IF good THEN AsGood(e.id, e.addr, e.t) ELSE AsQuest(e.id, e.addr, e.t)
                pred == RT!TAdd(StripT(t), c, e.t)
                h2 == IF good THEN HAnswer(hist, H(e), obs, e.t) ELSE HHearsay(hist, H(e), t, obs, e.t) IN
            /\ Drift("offer-result", l, StripT(obs) = pred)
            /\ Chk("C08", "offer-rules", l, OfferOK(t, H(e), IF good THEN GOOD ELSE QUEST, obs, e.t))
            /\ Chk("C10", "answer-makes-good", l, good => AnswerGood(obs, H(e), e.t))
            /\ Common(e, obs, h2)
      [] e.ev = "Local" ->
            LET obs == ApplyDiff(t, e.ch)  pred == RT!TMarkLocal(StripT(t), H(e), e.t) IN
            /\ Drift("mark-local", l, StripT(obs) = pred)
            /\ Chk("C10", "dropped-only-after-two-unanswered-queries", l, NoSpuriousDrop(HQuerySent(hist, H(e), t, e.t), t, obs, e.t))
            /\ Common(e, obs, HQuerySent(hist, H(e), t, e.t))
      [] e.ev = "Remote" ->
            LET obs == ApplyDiff(t, e.ch)  pred == RT!TMarkRemote(StripT(t), H(e), e.t) IN
            /\ Drift("mark-remote", l, StripT(obs) = pred)
            /\ Chk("C12", "query-never-admits", l, RLiveHandles(obs, e.t) \subseteq RLiveHandles(t, e.t))
            /\ Chk("C10", "not-dropped-by-a-query-from-it", l, NoSpuriousDrop(hist, t, obs, e.t))
            /\ Common(e, obs, HQueryFrom(hist, H(e), t, e.t))
      [] e.ev = "Closest" ->
            LET hs == HandlesOf(e.out)
                pred == RT!Closest(StripT(t), e.target, e.t) IN
            /\ Chk("C09", "enumeration-visits-each-live-node-once", l, EnumOK(t, e.t, hs))
            /\ Chk("C09", "reply-v4", l, ReplyOK(t, e.target, e.t, TakeN(SelectSeq(hs, LAMBDA x : x.addr.fam = 4), 8), LAMBDA a : a.fam = 4))
            /\ Chk("C09", "reply-v6", l, ReplyOK(t, e.target, e.t, TakeN(SelectSeq(hs, LAMBDA x : x.addr.fam = 6), 8), LAMBDA a : a.fam = 6))
            /\ Drift("closest-order", l, hs = [i \in 1..Len(pred) |-> Handle(pred[i])])
            /\ UNCHANGED <<t, hist>> /\ now' = e.t
      [] e.ev = "Contacts" ->
            /\ Chk("C10", "contacts-good", l, {e.good[i] : i \in 1..Len(e.good)} =
                        {SlotC(t, p).addr : p \in {q \in AllSlots(t) : SlotC(t, q).st = GOOD}})
            /\ Chk("C10", "contacts-questionable", l, {e.quest[i] : i \in 1..Len(e.quest)} =
                        {SlotC(t, p).addr : p \in {q \in AllSlots(t) : SlotC(t, q).st = QUEST}})
            /\ Chk("C10", "counts", l, e.ng = Cardinality({q \in AllSlots(t) : SlotC(t, q).st = GOOD})
                                     /\ e.nq = Cardinality({q \in AllSlots(t) : SlotC(t, q).st = QUEST}))
            /\ UNCHANGED <<t, hist>> /\ now' = e.t

Next == l <= NRec /\ l' = l + 1 /\ Step(Rec[l])
Spec == Init /\ [][Next]_vars
=============================================================================
