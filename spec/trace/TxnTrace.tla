------------------------------ MODULE TxnTrace ------------------------------
(***************************************************************************)
(* Trace specification for the transaction-id generators at production     *)
(* constants (BLOCK = 2048, MMAX = 2^24): C19.  The harness draws          *)
(* 2^24 + 3*2048 ids from one MIDGenerator and 3*2048 activities from the  *)
(* AIDGenerator.  16.8 M ids cannot be shipped to TLC, so the harness      *)
(* reduces them (this reduction is part of the trusted base): one MidBlock *)
(* line per block of 2048 draws {k,min,max,distinct,prefix_ok,len_ok}, a   *)
(* MidRun line {n, first_repeat (index of the first draw that repeats an   *)
(* earlier one, -1 if none), min_gap}, the first block / the last block    *)
(* before the wrap / the first after it in full (MidFull{k,mids}), and the *)
(* activity prefixes in full (Aids{aids}).                                 *)
(***************************************************************************)
EXTENDS TraceLib, FiniteSets

BLOCK == 2048
MMAX == 16777216

VARIABLES l, blocks
vars == <<l, blocks>>
Init == l = 1 /\ blocks = 0

NBLK == MMAX \div BLOCK    \* 8192 blocks per cycle

Step(e) ==
    CASE e.ev = "Reset" -> blocks' = 0
      [] e.ev = "MidBlock" ->
            LET start == (e.k % NBLK) * BLOCK IN
            /\ Chk("C19", "tid-is-8-bytes", l, e.len_ok)
            /\ Chk("C19", "activity-prefix-stable", l, e.prefix_ok)
            /\ Chk("C19", "message-id-below-2^24", l, e.min >= 0 /\ e.max < MMAX)
            /\ Drift("block-is-permutation-of-its-range", l, e.min = start /\ e.max = start + BLOCK - 1 /\ e.distinct = BLOCK)
            /\ blocks' = blocks + 1
      [] e.ev = "MidFull" ->
            LET start == (e.k % NBLK) * BLOCK
                S == {e.mids[i] : i \in 1..Len(e.mids)} IN
            /\ Chk("C19", "no-repeat-inside-block", l, Cardinality(S) = Len(e.mids))
            /\ Drift("block-range", l, S = start..(start + BLOCK - 1))
            /\ UNCHANGED blocks
      [] e.ev = "MidRun" ->
            /\ Chk("C19", "ids-do-not-repeat-until-2^24-issued", l, e.first_repeat = -1 \/ e.first_repeat > MMAX)
            /\ Chk("C19", "enough-draws-to-cross-the-wrap", l, e.n > MMAX + BLOCK /\ blocks * BLOCK = e.n)
            /\ Drift("repeat-spacing", l, e.min_gap = -1 \/ e.min_gap >= MMAX - BLOCK + 1)
            /\ UNCHANGED blocks
      [] e.ev = "Aids" ->
            LET S == {e.aids[i] : i \in 1..Len(e.aids)} IN
            /\ Chk("C19", "activities-have-distinct-prefixes", l, Cardinality(S) = Len(e.aids))
            /\ Chk("C19", "mid-generator-carries-its-activity-prefix", l, e.consistent)
            /\ UNCHANGED blocks

Next == l <= NRec /\ l' = l + 1 /\ Step(Rec[l])
Spec == Init /\ [][Next]_vars
=============================================================================
